"""Linear forms over named atoms, and the per-path fact store.

A value of integer type is a linear form  c0 + sum(ci * atom_i).  Atoms are
strings that name an unknown by what it *is* (a load from immutable descriptor
memory, the result of a non-linear operator on other forms, a callback result,
a havocked loop/step variable), so the same quantity evaluated twice on a path
is the same atom and relational facts need no alias reasoning.

Facts of a path:  an interval per atom, a set of excluded points per atom and
upper bounds on linear forms ("form <= c").  Entailment is by interval
evaluation, exact lookup of the form, and one-fact-plus-interval-residual; that
is a sound, incomplete decision procedure (no solver involved).
"""

INF = float('inf')


class Lin:
    __slots__ = ('terms', 'const', '_key')

    def __init__(self, terms=(), const=0):
        self.terms = terms          # sorted tuple of (atom, coef), coef != 0
        self.const = const
        self._key = None

    # construction ---------------------------------------------------------
    @staticmethod
    def c(k):
        return Lin((), int(k))

    @staticmethod
    def atom(a, coef=1, const=0):
        return Lin(((a, coef),), const)

    def is_const(self):
        return not self.terms

    def single(self):
        """(atom, coef, const) if exactly one atom else None"""
        if len(self.terms) == 1:
            return self.terms[0][0], self.terms[0][1], self.const
        return None

    def atoms(self):
        return [a for a, _ in self.terms]

    def key(self):
        return self.terms

    def __eq__(self, o):
        return isinstance(o, Lin) and self.terms == o.terms and self.const == o.const

    def __hash__(self):
        return hash((self.terms, self.const))

    def add(self, o):
        if not o.terms:
            return Lin(self.terms, self.const + o.const)
        if not self.terms:
            return Lin(o.terms, self.const + o.const)
        d = dict(self.terms)
        for a, k in o.terms:
            v = d.get(a, 0) + k
            if v:
                d[a] = v
            else:
                d.pop(a, None)
        return Lin(tuple(sorted(d.items())), self.const + o.const)

    def scale(self, k):
        if k == 0:
            return Lin((), 0)
        return Lin(tuple((a, c * k) for a, c in self.terms), self.const * k)

    def sub(self, o):
        return self.add(o.scale(-1))

    def addc(self, k):
        return Lin(self.terms, self.const + k)

    def subst(self, m):
        """replace atoms by linear forms according to dict m"""
        if not any(a in m for a, _ in self.terms):
            return self
        r = Lin((), self.const)
        for a, k in self.terms:
            if a in m:
                r = r.add(m[a].scale(k))
            else:
                r = r.add(Lin(((a, k),), 0))
        return r

    def rename(self, f):
        """rename atoms with function f(atom)->atom"""
        d = {}
        for a, k in self.terms:
            b = f(a)
            d[b] = d.get(b, 0) + k
        return Lin(tuple(sorted((a, k) for a, k in d.items() if k)), self.const)

    def __repr__(self):
        if not self.terms:
            return str(self.const)
        s = []
        for a, k in self.terms:
            if k == 1:
                s.append(a)
            elif k == -1:
                s.append('-' + a)
            else:
                s.append('%d*%s' % (k, a))
        r = '+'.join(s).replace('+-', '-')
        if self.const:
            r += ('+%d' % self.const) if self.const > 0 else str(self.const)
        return r


class Facts:
    """interval / exclusion / linear upper-bound facts of one path"""
    __slots__ = ('iv', 'ex', 'ub')

    def __init__(self):
        self.iv = {}      # atom -> (lo, hi)
        self.ex = {}      # atom -> frozenset of excluded ints
        self.ub = {}      # terms-key -> c   meaning  sum(coef*atom) <= c

    def copy(self):
        f = Facts.__new__(Facts)
        f.iv = dict(self.iv)
        f.ex = dict(self.ex)
        f.ub = dict(self.ub)
        return f

    # intervals -------------------------------------------------------------
    def bounds_atom(self, a):
        return self.iv.get(a, (-INF, INF))

    def bounds(self, l):
        lo = hi = l.const
        for a, k in l.terms:
            alo, ahi = self.iv.get(a, (-INF, INF))
            if k > 0:
                lo += k * alo
                hi += k * ahi
            else:
                lo += k * ahi
                hi += k * alo
        return lo, hi

    def upper(self, l, depth=1, target=None):
        """a provable upper bound of linear form l: intervals, the stored bound on exactly this
        form, or a stored fact F <= c plus a bound on the residual l - F (chained `depth` times).
        With `target`, the search stops as soon as a bound <= target is found."""
        terms = l.terms
        best = l.const
        iv = self.iv
        for a, k in terms:
            b = iv.get(a)
            if b is None:
                best = INF
                break
            best += k * (b[1] if k > 0 else b[0])
        if not terms:
            return best
        ub = self.ub
        if not ub:
            return best
        c = ub.get(terms)
        if c is not None and c + l.const < best:
            best = c + l.const
        if depth <= 0 or (target is not None and best <= target):
            return best
        mine = dict(terms)
        cands = []
        for k, c in ub.items():
            if k == terms:
                continue
            res = None
            for a, _ in k:
                if a in mine:
                    res = True
                    break
            if res is None:
                continue
            # residual  l - F  as a dict
            d = dict(mine)
            for a, co in k:
                v = d.get(a, 0) - co
                if v:
                    d[a] = v
                else:
                    d.pop(a, None)
            if len(d) > len(mine) + 1:
                continue
            hi = l.const + c
            ok = True
            for a, co in d.items():
                b = iv.get(a)
                if b is None:
                    ok = False
                    break
                hi += co * (b[1] if co > 0 else b[0])
            if ok and hi < best:
                best = hi
                if target is not None and best <= target:
                    return best
            if depth > 1 and d:
                cands.append((d, c))
        if depth > 1:
            for d, c in cands:
                r = Lin(tuple(sorted(d.items())), l.const)
                t2 = None if target is None else target - c
                rhi = self.upper(r, depth - 1, t2)
                if rhi + c < best:
                    best = rhi + c
                    if target is not None and best <= target:
                        return best
        return best

    def lower(self, l, depth=1, target=None):
        u = self.upper(l.scale(-1), depth, None if target is None else -target)
        return -u

    def le(self, l, c=0):
        """is  l <= c  entailed / refuted / unknown -> True / False / None"""
        if self.upper(l, 2, c) <= c:
            return True
        if self.lower(l, 2, c + 1) > c:
            return False
        return None

    # refinement ------------------------------------------------------------
    def assume_le(self, l, c=0):
        """add fact l <= c; returns False if the path becomes infeasible"""
        if l.is_const():
            return l.const <= c
        s = l.single()
        if s:
            a, k, k0 = s
            lo, hi = self.iv.get(a, (-INF, INF))
            # k*a + k0 <= c
            if k > 0:
                nh = (c - k0) // k
                if nh < hi:
                    hi = nh
            else:
                nl = -((c - k0) // (-k))
                if nl > lo:
                    lo = nl
            lo, hi = self._shrink(a, lo, hi)
            if lo > hi:
                return False
            self.iv[a] = (lo, hi)
            return True
        cc = c - l.const
        old = self.ub.get(l.terms)
        if old is None or cc < old:
            self.ub[l.terms] = cc
        # contradiction with an opposite fact or the intervals
        if self.lower(l) > c:
            return False
        return True

    def _shrink(self, a, lo, hi):
        ex = self.ex.get(a)
        if ex:
            while lo in ex and lo <= hi:
                lo += 1
            while hi in ex and lo <= hi:
                hi -= 1
        return lo, hi

    def assume_eq(self, l, c=0):
        return self.assume_le(l, c) and self.assume_le(l.scale(-1), -c)

    def assume_ne(self, l, c=0):
        s = l.single()
        if l.is_const():
            return l.const != c
        if s:
            a, k, k0 = s
            if (c - k0) % k != 0:
                return True
            v = (c - k0) // k
            lo, hi = self.iv.get(a, (-INF, INF))
            if lo == hi == v:
                return False
            ex = self.ex.get(a, frozenset())
            if v not in ex:
                self.ex[a] = ex | {v}
            lo, hi = self._shrink(a, lo, hi)
            if lo > hi:
                return False
            if (lo, hi) != (-INF, INF):
                self.iv[a] = (lo, hi)
            return True
        return True

    def eq(self, l, c=0):
        """is l == c  True/False/None"""
        if l.is_const():
            return l.const == c
        lo, hi = self.lower(l), self.upper(l)
        if lo == hi == c:
            return True
        if c < lo or c > hi:
            return False
        s = l.single()
        if s:
            a, k, k0 = s
            if (c - k0) % k != 0:
                return False
            if (c - k0) // k in self.ex.get(a, ()):
                return False
        return None

    def project_out(self, pred, max_terms=3):
        """forget the atoms satisfying pred, keeping what the facts imply about the others
        (Fourier-Motzkin elimination on unit coefficients, bounded form size)"""
        dying = set(a for a in self.iv if pred(a))
        for k in self.ub:
            for a, _ in k:
                if pred(a):
                    dying.add(a)
        for x in dying:
            pos, neg = [], []
            for k, c in self.ub.items():
                for a, co in k:
                    if a == x:
                        if co == 1:
                            pos.append((k, c))
                        elif co == -1:
                            neg.append((k, c))
                        break
            lo, hi = self.iv.get(x, (-INF, INF))
            if hi != INF:
                pos.append((((x, 1),), hi))
            if lo != -INF:
                neg.append((((x, -1),), -lo))
            if len(pos) * len(neg) > 64:
                continue
            for kp, cp in pos:
                for kn, cn in neg:
                    if len(kp) == 1 and len(kn) == 1:
                        continue
                    l = Lin(kp, 0).add(Lin(kn, 0))
                    if not l.terms or len(l.terms) > max_terms:
                        continue
                    if any(a in dying for a, _ in l.terms):
                        continue
                    if any(co not in (1, -1) for _, co in l.terms):
                        continue
                    c = cp + cn
                    if len(l.terms) == 1:
                        self.assume_le(l, c)
                        continue
                    if self.upper(l, 1) <= c:
                        continue
                    self.ub[l.terms] = c
        self.drop_atoms(lambda a: a in dying)

    def drop_atoms(self, pred):
        """forget every fact that mentions an atom satisfying pred"""
        for a in [a for a in self.iv if pred(a)]:
            del self.iv[a]
        for a in [a for a in self.ex if pred(a)]:
            del self.ex[a]
        for k in [k for k in self.ub if any(pred(a) for a, _ in k)]:
            del self.ub[k]
