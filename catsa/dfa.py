"""Extraction of the argument decoders as finite automata and comparison with the grammars of C04/C05.

A decoder is a loop that reads one byte of the argument text per iteration and keeps a few locals.
For grammar purposes the locals are abstracted to their discrete part (flags and small state
numbers exactly; counters to zero / positive; accumulators to "some value"), the loop body is
interpreted once per (abstract local state, input byte) with the byte made concrete, and the
resulting transition system is compared, by product construction, with the reference automaton
written down from the property text.  All 256 byte values are tried in every reachable state.
"""
from .frontend import AnalysisBroken, node_pos
from .interp import State, SELF, is_lin, trace_events
from .lin import Lin, INF
from .graph import walk

NUL, COMMA = 0, 44


def find_decoders(prog):
    """functions that scan the argument text: a loop whose body reads buf[self->position++]"""
    out = []
    for name, fn in prog.functions.items():
        if not fn['type']['qualType'].startswith('int ('):
            continue
        loops = [x for x in walk(fn['_body']) if x.get('kind') in ('WhileStmt', 'ForStmt')]
        if len(loops) != 1:
            continue
        incs = [x for x in walk(loops[0]) if x.get('kind') == 'UnaryOperator' and x.get('opcode') == '++' and x.get('isPostfix')
                and x['inner'][0].get('kind') == 'MemberExpr' and x['inner'][0].get('name') == 'position']
        if incs:
            out.append(name)
    return sorted(out)


class Extractor:
    def __init__(self, model, fname, access=None, exact_small=False):
        self.m = model
        self.access = access          # enumerator value of the variable's access mode (default read-write)
        self._counter = None          # the decoded-length local is never kept exact (set by compare_out)
        self.exact_small = exact_small   # keep one-byte locals exact (needed to follow decoded values)
        self.it = model.ms.it
        self.fn = model.prog.functions[fname]
        self.fname = fname
        body = self.fn['_body']
        self.pre = []
        self.loop = None
        for st in body.get('inner', ()):
            if st.get('kind') in ('WhileStmt', 'ForStmt'):
                self.loop = st
                break
            self.pre.append(st)
        if self.loop is None:
            raise AnalysisBroken('decoder %s: no top-level loop' % fname)
        self.locals = {}     # decl id -> (name, type)
        for x in walk(body):
            if x.get('kind') == 'VarDecl':
                self.locals[x['id']] = (x['name'], x['type'].get('desugaredQualType', x['type']['qualType']))
        self.params = self.fn['_params']
        # counters whose being zero matters to the grammar: those compared with the literal 0 in the loop
        self.zero_tested = set()
        for x in walk(self.loop):
            if x.get('kind') == 'BinaryOperator' and x.get('opcode') in ('>', '<', '==', '!=', '>=', '<='):
                a, b = x['inner']

                def base(n):
                    while n.get('kind') in ('ImplicitCastExpr', 'ParenExpr', 'CStyleCastExpr'):
                        n = n['inner'][0]
                    return n
                a, b = base(a), base(b)
                for u, v in ((a, b), (b, a)):
                    if u.get('kind') == 'DeclRefExpr' and v.get('kind') == 'IntegerLiteral' and v.get('value') == '0':
                        self.zero_tested.add(u['referencedDecl']['id'])
        # locals that every iteration assigns before reading them are not part of the loop state
        self.dead = set()
        lb = self.loop['inner'][-1]
        for did in self.locals:
            first = self._first_ref(lb, did)
            if first == 'write':
                self.dead.add(did)

    def _first_ref(self, node, did):
        """'write' if the first reference (in evaluation order) to the local is the target of a plain assignment"""
        stack = [(node, None)]
        # document-order DFS; an assignment's right-hand side is evaluated before the store
        def visit(n, parent):
            if n.get('kind') == 'BinaryOperator' and n.get('opcode') == '=':
                lhs, rhs = n['inner']
                r = visit(rhs, n)
                if r:
                    return r
                if lhs.get('kind') == 'DeclRefExpr' and lhs['referencedDecl']['id'] == did:
                    return 'write'
                return visit(lhs, n)
            if n.get('kind') == 'DeclRefExpr' and n.get('referencedDecl', {}).get('id') == did:
                return 'read'
            for ch in n.get('inner', ()):
                if isinstance(ch, dict) and ch:
                    r = visit(ch, n)
                    if r:
                        return r
            return None
        return visit(node, None)

    # ---- abstract local states -------------------------------------------------------------
    def _key(self, s):
        """discrete view of the locals at the loop head"""
        out = []
        for did, (name, qt) in sorted(self.locals.items(), key=lambda x: x[1][0]):
            v = s.mem.get(('L', 0, did))
            if did in self.dead:
                out.append((name, 'undef'))
                continue
            if v is None or (isinstance(v, tuple) and v[0] == 'uninit'):
                out.append((name, 'undef'))
            elif is_lin(v) and v.is_const():
                c = v.const
                big = qt in ('unsigned long', 'long', 'size_t', 'uint64_t', 'int64_t', 'unsigned char', 'uint8_t')
                if self.exact_small and qt in ('unsigned char', 'uint8_t') and did != self._counter:
                    big = False
                    out.append((name, c))
                    continue
                if big and did in self.zero_tested:
                    out.append((name, 'zero' if c == 0 else 'pos'))
                elif big and not (-2 <= c <= 3):
                    out.append((name, 'any'))
                else:
                    out.append((name, c))
            elif is_lin(v):
                lo = s.facts.lower(v)
                out.append((name, 'pos' if lo >= 1 and did in self.zero_tested else 'any'))
            else:
                out.append((name, 'ptr'))
        return tuple(out)

    def _make(self, key, c):
        """a concrete-enough interpreter state for one iteration: locals per key, next input byte c"""
        s = State()
        s.stack = (self.fname,)
        s.pnull['DESC'] = False
        s.pnull['IO'] = False
        s.pnull['DESC.unsolicited_buf'] = False
        s.pnull['VAR'] = False
        s.pnull['VAR.data'] = False
        s.mem[('S', 'desc')] = ('obj', 'DESC')
        s.mem[('S', 'var')] = ('obj', 'VAR')
        s.mem[('S', 'position')] = Lin.c(0)
        s.mem[('L', 0, self.params[0]['id'])] = SELF
        for p in self.params[1:]:
            s.mem[('L', 0, p['id'])] = ('ref', ('X', p['name']))
        E = self.m.prog.enums
        acc = E['CAT_VAR_ACCESS_READ_WRITE'] if self.access is None else self.access
        s.facts.iv['VAR.access'] = (acc, acc)
        s.facts.iv['VAR.data_size'] = (1000, 1000)
        s.facts.iv['DESC.buf_size'] = (64, 64)
        s.ghost[('byte', ('BUF',), Lin.c(0))] = Lin.c(c)
        s.ghost[('term', ('BUF',))] = Lin.c(40)
        ids = {name: did for did, (name, qt) in self.locals.items()}
        for name, val in key:
            did = ids[name]
            loc = ('L', 0, did)
            if val == 'undef':
                s.mem[loc] = ('uninit', name)
            elif val == 'zero':
                s.mem[loc] = Lin.c(0)
            elif val == 'pos':
                a = self.it.fresh(s, 'dfa:' + name, None, (1, 9))
                s.mem[loc] = a
            elif val == 'any':
                a = self.it.fresh(s, 'dfa:' + name, None, (0, 9))
                s.mem[loc] = a
            elif val == 'ptr':
                s.mem[loc] = ('top',)
            else:
                s.mem[loc] = Lin.c(val)
        return s

    def initial(self):
        s = self._make((), 0)
        cur = [(s, None)]
        for st in self.pre:
            nxt = []
            for s1, sig in cur:
                if sig is None:
                    nxt.extend(self.it.exec_stmt(st, s1))
            cur = nxt
        keys = set(self._key(s1) for s1, sig in cur if sig is None)
        if len(keys) != 1:
            raise AnalysisBroken('decoder %s: prologue is not deterministic' % self.fname)
        return keys.pop()

    def step(self, key, c):
        """outcomes of one iteration: set of ('ret', value) / ('next', key)"""
        s = self._make(key, c)
        inner = self.loop['inner']
        body = inner[-1]
        cond = inner[0] if self.loop['kind'] == 'WhileStmt' else inner[2]
        outs = set()
        ts, fs = self.it.branch(cond, s) if cond else ([s], [])
        for s1 in fs:
            outs.add(('fall', None))
        for s1 in ts:
            for s2, sig in self.it.exec_stmt(body, s1):
                if sig is not None and sig[0] == 'return':
                    rv = sig[1]
                    outs.add(('ret', rv.const if is_lin(rv) and rv.is_const() else '?'))
                elif sig is None or sig[0] == 'continue':
                    pos = s2.mem.get(('S', 'position'))
                    if not (is_lin(pos) and pos.is_const() and pos.const == 1):
                        outs.add(('badpos', repr(pos)))
                    outs.add(('next', self._key(s2)))
                else:
                    outs.add(('fall', None))
        return outs

    def counter_local(self):
        """the local that holds the decoded length: the one assigned to self->write_size"""
        found = set()
        for x in walk(self.fn['_body']):
            if x.get('kind') == 'BinaryOperator' and x.get('opcode') == '=':
                a, b = x['inner']
                while a.get('kind') in ('ParenExpr', 'ImplicitCastExpr'):
                    a = a['inner'][0]
                if a.get('kind') == 'MemberExpr' and a.get('name') == 'write_size':
                    # whatever the shape of the right-hand side (plain, cast, conditional): the locals it mentions
                    for y in walk(b):
                        if y.get('kind') == 'DeclRefExpr' and y['referencedDecl']['id'] in self.locals:
                            found.add(y['referencedDecl']['id'])
        if len(found) != 1:
            raise AnalysisBroken('decoder %s: cannot tell which local is the decoded length (%d candidates)' % (self.fname, len(found)))
        return found.pop()

    def step_fx(self, key, c):
        """outcomes of one iteration together with what it did to the variable:
        set of (outcome, stores, counter delta, reported length) where stores is a tuple of
        (offset relative to the decoded length before the step, value stored) and the reported
        length is relative to the decoded length as well; None where nothing happened"""
        from .interp import trace_paths
        cid = self.counter_local()
        s = self._make(key, c)
        c0 = s.mem.get(('L', 0, cid))
        inner = self.loop['inner']
        body = inner[-1]
        cond = inner[0] if self.loop['kind'] == 'WhileStmt' else inner[2]
        outs = set()
        ts, fs = self.it.branch(cond, s) if cond else ([s], [])
        for s1 in fs:
            outs.add((('fall', None), (), None, None))

        def rel(v):
            if not is_lin(v) or not is_lin(c0):
                return '?'
            d = v.sub(c0)
            return d.const if d.is_const() else '?'

        def cv(v):
            return (v.const & 0xFF) if is_lin(v) and v.is_const() else '?'
        for s1 in ts:
            for s2, sig in self.it.exec_stmt(body, s1):
                if sig is not None and sig[0] == 'return':
                    rv = sig[1]
                    oc = ('ret', rv.const if is_lin(rv) and rv.is_const() else '?')
                elif sig is None or sig[0] == 'continue':
                    oc = ('next', self._key(s2))
                else:
                    oc = ('fall', None)
                c1 = s2.mem.get(('L', 0, cid))
                dcount = rel(c1) if oc[0] == 'next' else None
                keep = lambda e: (e['k'] == 'wr' and e['region'][0] == 'vdata') or (e['k'] == 'st' and e.get('loc') == ('S', 'write_size'))
                for seq in trace_paths(s2.trace, limit=2000, keep=keep):
                    stores = tuple((rel(e['off']), cv(e['val']) if e.get('val') is not None else '?') for e in seq if e['k'] == 'wr')
                    ws = [rel(e['val']) for e in seq if e['k'] == 'st']
                    outs.add((oc, stores, dcount, ws[-1] if ws else None))
        return outs

    def automaton(self, chars=None):
        chars = chars if chars is not None else list(range(-128, 128))
        init = self.initial()
        states = {init: 0}
        order = [init]
        delta = {}
        i = 0
        while i < len(order):
            k = order[i]
            i += 1
            for c in chars:
                outs = self.step(k, c)
                delta[(k, c)] = outs
                for kind, v in outs:
                    if kind == 'next' and v not in states:
                        if len(states) > 40:
                            raise AnalysisBroken('decoder %s: more than 40 abstract states' % self.fname)
                        states[v] = len(states)
                        order.append(v)
        return init, order, delta


# ---- reference automata (from the property text) -----------------------------------------------
def _is_digit(c):
    return 48 <= c <= 57


def _is_hex(c):
    return _is_digit(c) or 65 <= c <= 70 or 97 <= c <= 102


def ref_int(state, c):
    # states: 0 start, 1 after sign, 2 in digits
    if state == 2 and c in (NUL, COMMA):
        return ('ret', 1 if c == COMMA else 0)
    if state == 0 and c in (43, 45):
        return ('next', 1)
    if _is_digit(c):
        return ('next', 2)
    return ('ret', -1)


def ref_uint(state, c):
    if state == 1 and c in (NUL, COMMA):
        return ('ret', 1 if c == COMMA else 0)
    if _is_digit(c):
        return ('next', 1)
    return ('ret', -1)


def ref_hex(state, c):
    # 0 start, 1 after '0', 2 after 'x', 3 in digits
    if state == 3 and c in (NUL, COMMA):
        return ('ret', 1 if c == COMMA else 0)
    if state == 0:
        return ('next', 1) if c == 48 else ('ret', -1)
    if state == 1:
        return ('next', 2) if c in (120, 88) else ('ret', -1)
    if _is_hex(c):
        return ('next', 3)
    return ('ret', -1)


def ref_hexbuf(state, c):
    # 0 start (no byte yet), 1 odd nibble pending (no complete byte), 2 at a byte boundary with >= 1 byte, 3 odd nibble pending (>=1 byte)
    if state == 2 and c in (NUL, COMMA):
        return ('ret', 1 if c == COMMA else 0)
    if not _is_hex(c):
        return ('ret', -1)
    return ('next', {0: 1, 1: 2, 2: 3, 3: 2}[state])


def ref_string(state, c):
    # 0 start, 1 inside quotes, 2 after backslash, 3 after closing quote
    if state == 0:
        return ('next', 1) if c == 34 else ('ret', -1)
    if state == 1:
        if c == NUL:
            return ('ret', -1)
        if c == 92:
            return ('next', 2)
        if c == 34:
            return ('next', 3)
        return ('next', 1)
    if state == 2:
        return ('next', 1) if c in (92, 34, 110) else ('ret', -1)
    if c in (NUL, COMMA):
        return ('ret', 1 if c == COMMA else 0)
    return ('ret', -1)


REFS = {'int': (ref_int, '[+-]?[0-9]+'), 'uint': (ref_uint, '[0-9]+'), 'hex': (ref_hex, '0[xX][0-9a-fA-F]+'),
        'hexbuf': (ref_hexbuf, '([0-9a-fA-F]{2})+'), 'string': (ref_string, '"([^"\\\\\\0]|\\\\["\\\\n])*"')}


def compare(extractor, ref, chars=None):
    """product of the extracted automaton and the reference; returns (list of disagreements, #pairs, #transitions)"""
    chars = chars if chars is not None else list(range(-128, 128))
    init, order, delta = extractor.automaton(chars)
    pairs = {(init, 0): None}
    work = [(init, 0)]
    bad = []
    ntr = 0
    while work:
        k, r = work.pop()
        for c in chars:
            ntr += 1
            cu = c & 0xFF
            # the reference works on unsigned byte values; high bytes are never digits or punctuation
            want = ref(r, cu if cu < 128 else 200)
            got = delta[(k, c)]
            if len(got) != 1:
                bad.append((k, r, c, 'non-deterministic or ill-formed step: %s' % sorted(map(str, got)), pairs[(k, r)]))
                continue
            g = next(iter(got))
            if g[0] != want[0] or (g[0] == 'ret' and g[1] != want[1]):
                bad.append((k, r, c, 'decoder %s, grammar %s' % (_show(g), _show(want)), pairs[(k, r)]))
                continue
            if g[0] == 'next':
                nk = (g[1], want[1])
                if nk not in pairs:
                    pairs[nk] = (k, r, c)
                    work.append(nk)
    # witness strings for the reports
    out = []
    for k, r, c, msg, parent in bad[:6]:
        w = [c]
        p = pairs.get((k, r))
        while p is not None:
            w.append(p[2])
            p = pairs.get((p[0], p[1]))
        out.append((bytes(x & 0xFF for x in reversed(w)), msg))
    return out, len(pairs), ntr, len(order)


# ---- what the decoders must write (from the property text: "holds precisely the decoded bytes") ----
def out_string(state, c):
    """state as in ref_string -> ('byte', b) | ('end',) | None"""
    if state == 1 and c not in (NUL, 92, 34):
        return ('byte', c)
    if state == 2 and c in (92, 34, 110):
        return ('byte', {92: 92, 34: 34, 110: 10}[c])
    if state == 3 and c in (NUL, COMMA):
        return ('end', True)      # terminator stored at the decoded length
    return None


def _hexval(c):
    return c - 48 if _is_digit(c) else (c | 32) - 97 + 10


def ref_hexbuf_v(state, c):
    """ref_hexbuf with the pending high nibble in the state: (phase, hi)"""
    ph, hi = state
    r = ref_hexbuf(ph, c)
    if r[0] != 'next':
        return r
    return ('next', (r[1], _hexval(c) if r[1] in (1, 3) else 0))


def out_hexbuf(state, c):
    ph, hi = state
    if ph in (1, 3) and _is_hex(c):
        return ('byte', hi * 16 + _hexval(c))
    if ph == 2 and c in (NUL, COMMA):
        return ('end', False)     # no terminator for byte buffers
    return None


OUT_REFS = {'string': (ref_string, out_string, 0), 'hexbuf': (ref_hexbuf_v, out_hexbuf, (0, 0))}


def compare_out(extractor, kind, chars=None):
    """product of the decoder (with its effects on the variable) and the reference transducer;
    returns (disagreements with witness texts, #product states, #steps compared)"""
    ref, outf, r0 = OUT_REFS[kind]
    chars = chars if chars is not None else list(range(-128, 128))
    extractor._counter = extractor.counter_local()
    init = extractor.initial()
    pairs = {(init, r0): None}
    work = [(init, r0)]
    bad = []
    ntr = 0
    memo = {}
    while work:
        k, r = work.pop()
        for c in chars:
            ntr += 1
            cu = c & 0xFF
            want = ref(r, cu if cu < 128 else 200)
            emit = outf(r, cu if cu < 128 else 200)
            if (k, c) not in memo:
                memo[(k, c)] = extractor.step_fx(k, c)
            got = memo[(k, c)]
            ocs = set(g[0] for g in got)
            if len(ocs) != 1:
                bad.append((k, r, c, 'non-deterministic or ill-formed step: %s' % sorted(map(str, ocs))))
                continue
            oc = next(iter(ocs))
            if oc[0] != want[0] or (oc[0] == 'ret' and oc[1] != want[1]):
                # the language itself differs: reported by the grammar rule, not here
                continue
            for _, stores, dcount, ws in got:
                if oc[0] == 'ret' and oc[1] == -1:
                    continue      # a rejected text: what was stored before does not matter (C05 speaks of success)
                if emit is None:
                    if stores or (dcount not in (None, 0)):
                        bad.append((k, r, c, 'stores %s / advances the decoded length by %s where the grammar decodes nothing' % (list(stores), dcount)))
                elif emit[0] == 'byte':
                    b = cu if cu >= 128 else emit[1]     # (high bytes stand for themselves)
                    if stores != ((0, b),) or dcount != 1:
                        bad.append((k, r, c, 'stores %s and advances the decoded length by %s; expected the byte 0x%02x at the decoded length and an advance of 1' % (list(stores), dcount, b)))
                else:
                    exp = ((0, 0),) if emit[1] else ()
                    if stores != exp or ws != 0:
                        bad.append((k, r, c, 'at the end of the text stores %s and reports length (decoded length %+s); expected %s and the decoded length itself'
                                    % (list(stores), ws, 'the terminator at the decoded length' if emit[1] else 'no store')))
            if oc[0] == 'next':
                nk = (oc[1], want[1])
                if nk not in pairs:
                    if len(pairs) > 400:
                        raise AnalysisBroken('decoder %s: more than 400 product states' % extractor.fname)
                    pairs[nk] = (k, r, c)
                    work.append(nk)
    out = []
    seen = set()
    for k, r, c, msg in bad:
        if msg in seen:
            continue
        seen.add(msg)
        w = [c]
        p = pairs.get((k, r))
        while p is not None:
            w.append(p[2])
            p = pairs.get((p[0], p[1]))
        out.append((bytes(x & 0xFF for x in reversed(w)), msg))
        if len(out) >= 6:
            break
    return out, len(pairs), ntr


def _show(g):
    if g[0] == 'ret':
        return {-1: 'rejects', 0: 'accepts (end)', 1: 'accepts (comma)'}.get(g[1], 'returns %s' % (g[1],))
    if g[0] == 'next':
        return 'continues'
    return str(g)
