"""Syntactic indexes over the type-checked AST: call graph, call sites of the
indirect roles, stores, and small helpers shared by the rules."""
from .frontend import node_pos

ROLE_RECORDS = {'cat_io_interface': 'io', 'cat_mutex_interface': 'mutex', 'cat_command': 'cmd', 'cat_variable': 'var'}


def walk(n):
    stack = [n]
    while stack:
        x = stack.pop()
        if not isinstance(x, dict) or not x:
            continue
        yield x
        stack.extend(reversed(x.get('inner', ())))


def strip(n):
    while n.get('kind') in ('ImplicitCastExpr', 'ParenExpr', 'CStyleCastExpr') and n.get('inner'):
        n = n['inner'][0]
    return n


class Index:
    def __init__(self, prog):
        self.prog = prog
        self.calls = {}          # caller -> set of callee names (direct)
        self.role_sites = []     # (function, role 'mutex.lock', line)
        self.field_stores = {}   # field name path (record, field) -> [(function, line)]
        for name, fn in prog.functions.items():
            cs = set()
            for x in walk(fn['_body']):
                if x.get('kind') == 'CallExpr':
                    c = strip(x['inner'][0])
                    if c.get('kind') == 'DeclRefExpr' and c['referencedDecl']['kind'] == 'FunctionDecl':
                        cs.add(c['referencedDecl']['name'])
                    elif c.get('kind') == 'MemberExpr':
                        rec, fld, _ = prog.field_by_id.get(c.get('referencedMemberDecl'), (None, None, None))
                        if rec in ROLE_RECORDS:
                            self.role_sites.append((name, '%s.%s' % (ROLE_RECORDS[rec], fld), node_pos(x)[1]))
                        else:
                            self.role_sites.append((name, '?%s.%s' % (rec, fld), node_pos(x)[1]))
                    else:
                        self.role_sites.append((name, '?indirect', node_pos(x)[1]))
                k = x.get('kind')
                target = None
                if k == 'BinaryOperator' and x.get('opcode') == '=':
                    target = strip(x['inner'][0])
                elif k == 'CompoundAssignOperator':
                    target = strip(x['inner'][0])
                elif k == 'UnaryOperator' and x.get('opcode') in ('++', '--'):
                    target = strip(x['inner'][0])
                if target is not None and target.get('kind') == 'MemberExpr':
                    rec, fld, _ = prog.field_by_id.get(target.get('referencedMemberDecl'), (None, None, None))
                    self.field_stores.setdefault((rec, fld), []).append((name, node_pos(x)[1]))
            self.calls[name] = cs

    def reachable(self, name):
        seen = set()
        stack = [name]
        while stack:
            f = stack.pop()
            for c in self.calls.get(f, ()):
                if c not in seen:
                    seen.add(c)
                    stack.append(c)
        return seen

    def functions_with_role(self, prefix):
        return sorted(set(f for f, r, _ in self.role_sites if r.startswith(prefix)))
