"""Table and agreement rules: C02 (name resolution / dispatch structure), C07 (formatter-parser tables),
C19 (TEST response and command list)."""
import re
from .frontend import AnalysisBroken, node_pos
from .interp import trace_paths, trace_events, trace_count, is_lin, SELF, State
from .lin import Lin, INF
from .graph import Index, walk, strip
from .rules_fsm import transitions, T, cval, short, consumed_char, _eff, flatidx

OUT_REGIONS = ('BUF', 'BUFHI', 'UBUF')
_KEEP_KINDS = frozenset(('copy', 'wr', 'rd', 'switch', 'fmt', 'bytecmp', 'cap_cmp', 'exit', 'enter', 'lib'))


def _KEEP_TAB(e):
    return e['k'] in _KEEP_KINDS


def _texts(seq):
    """pieces of text appended to an output buffer along one event sequence"""
    out = []
    for e in seq:
        if e['k'] == 'copy' and e.get('via') != 'strncpy' and isinstance(e.get('dst'), tuple) and e['dst'][0] == 'mem' and e['dst'][1][0] in OUT_REGIONS:
            if e.get('text') is not None:
                out.append(e['text'])
            elif isinstance(e.get('src'), tuple) and e['src'][0] == 'mem' and e['src'][1][0] == 'dstr':
                out.append('{%s}' % e['src'][1][1].rpartition('.')[2])
            else:
                out.append('{?}')
        elif e['k'] == 'wr' and e['region'][0] in OUT_REGIONS and cval(e.get('val')) not in (None, 0):
            out.append(chr(cval(e['val'])) if 0 < cval(e['val']) < 128 else '{?}')
    return out


def _labels(seq, suffix):
    return [e['label'] for e in seq if e['k'] == 'switch' and is_lin(e['value']) and e['value'].single() and e['value'].single()[0].endswith(suffix)]


# ------------------------------------------------------------------------------------- C19
def c19(ctx):
    m = ctx.model
    E = m.prog.enums
    ctx.assume('descriptor domain: implicit_write commands have no read/run/test handler (cat_init asserts it); enum fields hold enumerators')
    TYPE = {}
    for tname, pre in (('CAT_VAR_INT_DEC', 'INT'), ('CAT_VAR_UINT_DEC', 'UINT'), ('CAT_VAR_NUM_HEX', 'HEX')):
        for sz in (1, 2, 4):
            TYPE[(E[tname], sz)] = '%s%d' % (pre, sz * 8)
    TYPE[(E['CAT_VAR_BUF_HEX'], None)] = 'HEXBUF'
    TYPE[(E['CAT_VAR_BUF_STRING'], None)] = 'STRING'
    ACC = {E['CAT_VAR_ACCESS_READ_WRITE']: 'RW', E['CAT_VAR_ACCESS_READ_ONLY']: 'RO', E['CAT_VAR_ACCESS_WRITE_ONLY']: 'WO'}
    seen_tokens = {}
    _printer_results_checked(ctx)
    for which in ('cmd', 'evt'):
        ex, ts = transitions(ctx, which)
        idxloc = ('S', 'index') if which == 'cmd' else ('S', 'unsolicited_fsm', 'index')
        for t in ts:
            if not (t.frm.endswith('STATE_FORMAT_TEST_ARGS') and 'AFTER' not in t.frm):
                continue
            for seq in trace_paths(t.t['trace'], limit=50000, keep=_KEEP_TAB):
                acc = _labels(seq, '.access')
                typ = _labels(seq, '.type')
                siz = _labels(seq, '.data_size')
                if not acc or not typ:
                    continue
                # (a result code starts a new unit: what is printed from there on is not part of the token,
                # whichever routine loads it)
                pieces = []
                for piece in _texts(seq):
                    if piece in ('OK', 'ERROR'):
                        break
                    pieces.append(piece)
                txt = ''.join(pieces)
                if '<' not in txt:
                    continue
                tok = txt[txt.index('<'):]
                if '>' in tok:
                    tok = tok[:tok.index('>') + 1]
                tkey = (typ[0], siz[0] if siz and typ[0] not in (E['CAT_VAR_BUF_HEX'], E['CAT_VAR_BUF_STRING']) else None)
                want_t = TYPE.get(tkey)
                want_a = ACC.get(acc[0])
                if want_t is None or want_a is None:
                    ctx.check('type-table', False, t.site(), 'a token %r is printed for unsupported (type %s, size %s, access %s)' % (tok, typ[0], siz[:1], acc[0]))
                    continue
                exp1 = '<%s[%s]>' % (want_t, want_a)
                exp2 = '<{name}:%s[%s]>' % (want_t, want_a)
                ok = exp1.startswith(tok) or exp2.startswith(tok) if not tok.endswith('>') else tok in (exp1, exp2)
                seen_tokens[(tkey, acc[0])] = tok
                ctx.check('type-table', ok, t.site(), 'variable of type %s size %s access %s is described as %r (expected %s)' % (typ[0], tkey[1], acc[0], tok, exp2))
            if False:
                pass
            # order: one variable per step, separated by a comma
            if t.to == t.frm:
                a, b = t.pre.mem.get(idxloc), t.raw.mem.get(idxloc)
                commas = [e for e in t.events if e['k'] == 'wr' and e['region'][0] in OUT_REGIONS and cval(e.get('val')) == 44]
                ctx.check('order', is_lin(a) and is_lin(b) and b == a.addc(1) and t.count(lambda e: e['k'] == 'wr' and e['region'][0] in OUT_REGIONS and cval(e.get('val')) == 44) == (1, 1),
                          t.site(), 'moving to the next variable: index %s -> %s, %d separators' % (a, b, len(commas)))
            # the description follows after a newline, when there is one
            if not t.to.endswith('FORMAT_TEST_ARGS') and not t.acks() and not (which == 'evt' and t.to.endswith('_IDLE')):
                cname = 'CMD' if which == 'cmd' else 'UCMD'
                dn = t.raw.pnull.get(cname + '.description')
                descs = [e for e in t.events if e['k'] == 'copy' and isinstance(e.get('src'), tuple) and e['src'][0] == 'mem' and e['src'][1] == ('dstr', cname + '.description')]
                if dn is False:
                    ctx.check('order', len(descs) >= 1, t.site(), 'the description is not appended to the TEST response')
                elif dn is True:
                    ctx.check('order', not descs, t.site(), 'a NULL description is printed')
    # the variable cursor starts at the first variable whenever formatting starts (both machines, both formatters)
    for which in ('cmd', 'evt'):
        ex, ts = transitions(ctx, which)
        idxloc = ('S', 'index') if which == 'cmd' else ('S', 'unsolicited_fsm', 'index')
        for t in ts:
            if ('STATE_FORMAT_TEST_ARGS' in t.to or 'STATE_FORMAT_READ_ARGS' in t.to) and 'AFTER' not in t.to and t.to != t.frm:
                ctx.check('order', cval(t.raw.mem.get(idxloc)) == 0, t.site(),
                          'formatting starts in %s with variable cursor %s instead of 0' % (short(t.to), t.raw.mem.get(idxloc)))
                # ... and only for a command that has a first variable: the response lists var_num variables, not
                # "whatever the table pointer points at"
                cname = 'CMD' if which == 'cmd' else 'UCMD'
                vn = Lin.atom(cname + '.var_num')
                lo_ = max(t.raw.facts.lower(vn), t.post.facts.lower(vn))      # (the canonical name exists in the canonical post-state)
                ctx.check('order', lo_ >= 1, t.site(),
                          'formatting of the variable list starts in %s without var_num >= 1 being established (var_num may be %s): a command without variables is described with an entry it does not own'
                          % (short(t.to), lo_))
    ctx.extra['distinct_tokens'] = len(seen_tokens)
    if len(seen_tokens) < 20:
        raise AnalysisBroken('only %d (type, access) combinations of the TEST token were extracted' % len(seen_tokens))
    for k in list(seen_tokens)[:5]:
        ctx.sample({'type,size': k[0], 'access': k[1], 'token': seen_tokens[k]})
    _list_vs_dispatch(ctx)
    return ctx


def _pin(s, obj, flags, nulls):
    for f, v in flags.items():
        s.facts.iv['%s.%s' % (obj, f)] = (v, v)
    for f, isnull in nulls.items():
        s.pnull['%s.%s' % (obj, f)] = isnull


def _list_vs_dispatch(ctx):
    """for every request form: the command list shows it  <=>  the dispatcher does not refuse it as unavailable"""
    from .rules_mem import _access_predicates
    m = ctx.model
    ms = m.ms
    E = m.prog.enums
    ex = m.machine('cmd')
    st = m.prog.enum_types['cat_state']['consts']
    preds = _access_predicates(ctx)
    RO, WO = E['CAT_VAR_ACCESS_READ_ONLY'], E['CAT_VAR_ACCESS_WRITE_ONLY']

    def base_state(name):
        for k, (s, _) in ex.store.items():
            if ex.state_name(s) == name:
                c = s.copy()
                c.facts.drop_atoms(lambda a: a.startswith(('CMD.', 'CMDS[', 'GRP.', 'GRPS[', 'VAR.')))
                for k2 in [k2 for k2 in c.pnull if k2.startswith(('CMD', 'GRP', 'VAR'))]:
                    del c.pnull[k2]
                return c
        raise AnalysisBroken('no abstract state %s' % name)

    def with_pred(vap):
        def ov(it, fn, args, s, n):
            a = cval(args[2])
            s.ev('pred', n, access=a)
            return [(s, Lin.c(1 if vap.get(a) else 0))]
        return ov

    import itertools
    n_val = 0
    forms = ['', '?', '=', '=?']
    for only_test, run_n, read_n, write_n, test_n, hasvars, vro, vwo, impl in itertools.product((0, 1), repeat=9):
        if (vro or vwo) and not hasvars:
            continue
        if impl and (not run_n or not read_n or not test_n):
            continue      # outside the descriptor domain
        if impl and hasvars:
            continue      # excepted by the property
        n_val += 1
        flags = {'only_test': only_test, 'implicit_write': impl, 'disable': 0, 'var_num': 2 if hasvars else 0}
        nulls = {'run': bool(run_n), 'read': bool(read_n), 'write': bool(write_n), 'test': bool(test_n), 'var': not hasvars,
                 'name': False}
        vap = {RO: vro, WO: vwo}
        for p in preds:
            ms.model.overrides[p] = with_pred(vap)
        try:
            # ---- what the list shows: walk the per-command sub-machine of the list printer
            listed = set()
            cur_type = E['CAT_CMD_TYPE_NONE']
            steps = 0
            while steps < 8:
                steps += 1
                s = base_state('CAT_STATE_PRINT_CMD')
                s.mem[('S', 'cmd_type')] = Lin.c(cur_type)
                s.mem[('S', 'index')] = Lin.c(0)
                s.mem[('S', 'length')] = Lin.c(1)
                _pin(s, 'CMDS[0]', flags, nulls)
                s.facts.iv['GRPS[0].disable'] = (0, 0)
                s.facts.assume_le(Lin.atom('f:commands_num').scale(-1), -2)
                outs = ex.step(s)
                nxt = set()
                for post, rv in outs:
                    for seq in trace_paths(post.trace, limit=5000, keep=_KEEP_TAB):
                        tx = _texts(seq)
                        if 'AT' in tx:
                            i = tx.index('AT')
                            suffix = tx[i + 2] if len(tx) > i + 2 and tx[i + 1] == '{name}' else None
                            if suffix in ('\n', '\r\n'):
                                suffix = ''
                            if suffix is not None:
                                listed.add(suffix)
                    ct = cval(post.mem.get(('S', 'cmd_type')))
                    ix = cval(post.mem.get(('S', 'index')))
                    if ix == 0 and ct is not None:
                        nxt.add(ct)
                    elif ix != 0:
                        nxt.add('done')
                nxt.discard(cur_type) if len(nxt) > 1 else None
                if not nxt or nxt == {'done'}:
                    break
                nn = sorted(x for x in nxt if x != 'done')
                if len(nn) != 1:
                    # the printing paths may fail for lack of room (ERROR): keep the successful continuation
                    nn = [x for x in nn if x != cur_type][:1] or nn[:1]
                cur_type = nn[0]
            # ---- what the dispatcher accepts
            accepted = set()
            for form, ctype in (('', 'RUN'), ('?', 'READ')):
                s = base_state('CAT_STATE_COMMAND_FOUND')
                s.mem[('S', 'cmd_type')] = Lin.c(E['CAT_CMD_TYPE_' + ctype])
                s.mem[('S', 'cmd')] = ('obj', 'CMD')
                s.pnull['CMD'] = False
                _pin(s, 'CMD', flags, nulls)
                for post, rv in ex.step(s):
                    to = cval(post.mem.get(('S', 'state')))
                    if to in (st['CAT_STATE_RUN_LOOP'], st['CAT_STATE_READ_LOOP'], st['CAT_STATE_FORMAT_READ_ARGS']):
                        accepted.add(form)
            s = base_state('CAT_STATE_PARSE_COMMAND_ARGS')
            s.mem[('S', 'cmd')] = ('obj', 'CMD')
            s.pnull['CMD'] = False
            s.mem[('S', 'length')] = Lin.c(0)
            _pin(s, 'CMD', flags, nulls)
            for post, rv in ex.step(s):
                to = cval(post.mem.get(('S', 'state')))
                if to in (st['CAT_STATE_PARSE_WRITE_ARGS'], st['CAT_STATE_WRITE_LOOP']):
                    accepted.add('=')
                if to == st['CAT_STATE_WAIT_TEST_ACKNOWLEDGE']:
                    accepted.add('=?')
        finally:
            for p in preds:
                ms.model.overrides.pop(p, None)
        desc = 'only_test=%d run=%s read=%s write=%s test=%s vars=%d readable=%d writable=%d implicit_write=%d' % (
            only_test, 'NULL' if run_n else 'set', 'NULL' if read_n else 'set', 'NULL' if write_n else 'set', 'NULL' if test_n else 'set', hasvars, vro, vwo, impl)
        for f in forms:
            ctx.check('list-vs-dispatch', (f in listed) == (f in accepted), ctx.site('print_cmd_list', m.fn_line('print_cmd_list') if 'print_cmd_list' in m.prog.functions else 0),
                      'for a command with %s the list %s AT<name>%s but the dispatcher %s it' % (desc, 'shows' if f in listed else 'omits', f, 'accepts' if f in accepted else 'refuses'))
        if n_val <= 3:
            ctx.sample({'descriptor': desc, 'listed': sorted(listed), 'accepted': sorted(accepted)})
    ctx.extra['descriptor_valuations'] = n_val
    # disabled commands and commands of disabled groups are not listed at all
    for cd, gd in ((1, 0), (0, 1)):
        s = base_state('CAT_STATE_PRINT_CMD')
        s.mem[('S', 'cmd_type')] = Lin.c(E['CAT_CMD_TYPE_NONE'])
        s.mem[('S', 'index')] = Lin.c(0)
        s.facts.iv['CMDS[0].disable'] = (cd, cd)
        s.facts.iv['GRPS[0].disable'] = (gd, gd)
        s.facts.assume_le(Lin.atom('f:commands_num').scale(-1), -2)
        for post, rv in ex.step(s):
            ok = cval(post.mem.get(('S', 'index'))) == 1 and not any(e['k'] == 'copy' and e.get('text') == 'AT' for e in trace_events(post.trace))
            ctx.check('list-vs-dispatch', ok, 'src/cat.c:PRINT_CMD', 'a command with disable=%d in a group with disable=%d is not skipped by the list' % (cd, gd))


def _printer_results_checked(ctx):
    """no result of a bounded printer is dropped: a failed print must not go unnoticed (truncated line)"""
    m = ctx.model
    idx = Index(m.prog)
    printers = set()
    for name, fn in m.prog.functions.items():
        rt = fn['type']['qualType'].split('(')[0].strip()
        if rt != 'int':
            continue
        reach = idx.reachable(name) | {name}
        if any(c in ('snprintf', 'memcpy') for f in reach for c in idx.calls.get(f, ())):
            printers.add(name)
    n = 0
    seen_fmt = {}
    for name, fn in m.prog.functions.items():
        def visit(node, parent):
            nonlocal n
            if node.get('kind') == 'CallExpr':
                c = strip(node['inner'][0])
                if c.get('kind') == 'DeclRefExpr' and c['referencedDecl'].get('name') in printers:
                    n += 1
                    unused = parent is not None and parent.get('kind') in ('CompoundStmt', 'CaseStmt', 'DefaultStmt', 'IfStmt', 'ForStmt', 'WhileStmt') and \
                        not (parent.get('kind') in ('IfStmt', 'ForStmt', 'WhileStmt') and parent['inner'][0] is node)
                    ctx.check('no-truncation', not unused, 'src/cat.c:%s:%s' % (node_pos(node)[1], name),
                              'the result of %s is ignored: a text that does not fit would be emitted truncated' % c['referencedDecl']['name'])
            for ch in node.get('inner', ()):
                if isinstance(ch, dict) and ch:
                    visit(ch, node)
        visit(fn['_body'], None)
    ctx.extra['printer_call_sites'] = n
    if n < 30:
        raise AnalysisBroken('only %d printer call sites found' % n)
    # the formatter itself: the length snprintf reports is compared with the space it was given, unless the
    # directives cannot produce more than the (constant) space
    nf = 0
    for name, fn in m.prog.functions.items():
        for x in walk(fn['_body']):
            if x.get('kind') == 'BinaryOperator' and x.get('opcode') == '=' or x.get('kind') == 'VarDecl':
                if x.get('kind') == 'VarDecl':
                    if not x.get('inner'):
                        continue
                    rhs, wid = strip(x['inner'][-1]), x.get('id')
                else:
                    rhs = strip(x['inner'][1])
                    lhs = strip(x['inner'][0])
                    wid = lhs.get('referencedDecl', {}).get('id') if lhs.get('kind') == 'DeclRefExpr' else None
                call = rhs
            elif x.get('kind') == 'CallExpr':
                call, wid = x, None
            else:
                continue
            if call.get('kind') != 'CallExpr':
                continue
            c = strip(call['inner'][0])
            if not (c.get('kind') == 'DeclRefExpr' and c['referencedDecl'].get('name') == 'snprintf'):
                continue
            key = (name, node_pos(call)[1])
            if wid is None and key in seen_fmt:
                continue
            seen_fmt[key] = seen_fmt.get(key) or wid
    for (name, line), wid in sorted(seen_fmt.items()):
        fn = m.prog.functions[name]
        call = [x for x in walk(fn['_body']) if x.get('kind') == 'CallExpr' and node_pos(x)[1] == line
                and strip(x['inner'][0]).get('referencedDecl', {}).get('name') == 'snprintf'][0]
        nf += 1
        size = strip(call['inner'][2])
        fmt = strip(call['inner'][3])
        worst = None
        if fmt.get('kind') == 'StringLiteral':
            txt = fmt.get('value', '')
            if '%s' not in txt and '%*' not in txt:
                worst = len(txt) + 11 * txt.count('%')
        cap = int(size['value']) if size.get('kind') == 'IntegerLiteral' else None
        if worst is not None and cap is not None and cap > worst:
            ctx.check('no-truncation', True, 'src/cat.c:%s:%s' % (line, name), '')
            continue
        compared = False
        for r in [x for x in walk(fn['_body']) if x.get('kind') == 'BinaryOperator' and x.get('opcode') in ('<', '<=', '>', '>=')]:
            a, b = strip(r['inner'][0]), strip(r['inner'][1])
            for u, v in ((a, b), (b, a)):
                if wid is not None and u.get('kind') == 'DeclRefExpr' and u['referencedDecl'].get('id') == wid:
                    if not (v.get('kind') == 'IntegerLiteral' and int(v['value']) == 0):
                        compared = True
        ctx.check('no-truncation', compared, 'src/cat.c:%s:%s' % (line, name),
                  'the length reported by snprintf is never compared with the space it was given: a text that does not fit is emitted truncated')
    ctx.extra['formatter_call_sites'] = nf
    if nf < 1:
        raise AnalysisBroken('no snprintf call site found')


# ------------------------------------------------------------------------------------- C02
def c02(ctx):
    m = ctx.model
    E = m.prog.enums
    ex, ts = transitions(ctx, 'cmd')
    ctx.assume('decides the structure of name resolution and dispatch; equality with a reference table lookup on concrete tables is not executed')
    flatidx(ctx)
    CT = {k[len('CAT_CMD_TYPE_'):]: v for k, v in m.prog.enum_types['cat_cmd_type']['consts'].items()}
    fam = {'RUN': ['RUN_LOOP'], 'READ': ['FORMAT_READ_ARGS', 'READ_LOOP', 'AFTER_FLUSH_FORMAT_READ_ARGS'],
           'WRITE': ['PARSE_COMMAND_ARGS', 'PARSE_WRITE_ARGS', 'WRITE_LOOP'],
           'TEST': ['WAIT_TEST_ACKNOWLEDGE', 'FORMAT_TEST_ARGS', 'TEST_LOOP', 'AFTER_FLUSH_FORMAT_TEST_ARGS']}
    fam_of = {}
    for f, names in fam.items():
        for n_ in names:
            fam_of['CAT_STATE_' + n_] = f
    kinds = {'cmd.run': 'RUN', 'cmd.read': 'READ', 'cmd.write': 'WRITE', 'cmd.test': 'TEST', 'var.read': 'READ', 'var.write': 'WRITE'}
    for t in ts:
        # handlers run only in the states of their own request kind
        for e in t.evs('cb'):
            want = kinds.get(e['kind'])
            ctx.check('kind-by-type', fam_of.get(t.frm) == want, t.site(e), 'a %s handler runs in state %s' % (e['kind'], short(t.frm)))
        # a family is entered from the dispatcher with the matching request type
        f_to, f_from = fam_of.get(t.to), fam_of.get(t.frm)
        if f_to is not None and f_to != f_from:
            ct = cval(t.pre.mem.get(('S', 'cmd_type')))
            if t.frm.endswith('COMMAND_FOUND'):
                ctx.check('kind-by-type', ct == CT[f_to], t.site(), 'the dispatcher enters %s with request type %s' % (short(t.to), ct))
            elif t.frm.endswith('FLUSH_IO_WRITE'):
                ctx.check('kind-by-type', 'AFTER_FLUSH' in t.to, t.site(), 'a flush continues in %s' % short(t.to))
            elif f_from == 'WRITE' and f_to == 'TEST':
                c = consumed_char(t)
                ln = cval(t.pre.mem.get(('S', 'length')))
                ok = t.frm.endswith('PARSE_COMMAND_ARGS') and c == ('const', ord('?')) and (ln == 0 or t.raw.facts.eq(t.pre.mem.get(('S', 'length')), 0) is True)
                ctx.check('suffix-table', ok, t.site(), 'the TEST form is recognised for %s at argument offset %s' % (c, t.pre.mem.get(('S', 'length'))))
            else:
                ctx.check('kind-by-type', False, t.site(), 'state %s is entered from %s' % (short(t.to), short(t.frm)))
        # the request type is fixed by the suffix alone
        for e in t.stores():
            if e['loc'] == ('S', 'implicit_write_flag') and cval(e['val']) == 1:
                # ... or by a fully typed implicit-write name - of a command that can be selected at all
                idxv = t.pre.mem.get(('S', 'index'))
                ok = t.raw.facts.eq(Lin.atom('CMDS[%s].disable' % (idxv,)), 0) is True and t.raw.facts.eq(Lin.atom('GRPS[%s].disable' % (idxv,)), 0) is True
                ctx.check('suffix-table', ok, t.site(e),
                          'the request is turned into a WRITE by the name of a command that is not known to be enabled (a disabled command decides the kind of another command\'s request)')
            if e['loc'] != ('S', 'cmd_type'):
                continue
            v = cval(e['val'])
            c = consumed_char(t)
            fr = short(t.frm)
            if fr == 'PARSE_PREFIX':
                ok = v == CT['RUN']
            elif fr == 'PARSE_COMMAND_CHAR':
                ok = (c == ('const', ord('?')) and v == CT['READ']) or (c == ('const', ord('=')) and v == CT['WRITE'])
            elif fr == 'UPDATE_COMMAND_STATE':
                ok = v == CT['WRITE'] and cval(t.pre.mem.get(('S', 'implicit_write_flag'))) != 0 or \
                    (v == CT['WRITE'] and any(x['k'] == 'st' and x['loc'] == ('S', 'implicit_write_flag') and cval(x['val']) == 1 for x in t.events))
            elif fr == 'PARSE_COMMAND_ARGS':
                ok = c == ('const', ord('?')) and v == CT['TEST']
            elif fr in ('PRINT_CMD', 'RUN_LOOP', 'TEST_LOOP'):
                ok = True       # the command list uses the field as its form cursor
            elif fr == 'AFTER_FLUSH_RESET':
                ok = v == CT['NONE']
            else:
                ok = False
            ctx.check('suffix-table', ok, t.site(e), 'request type %s is set in state %s after %s' % (v, fr, c))
        # only the lookup (and the list printer) select a command, and by the index they scanned
        for e in t.stores():
            if e['loc'] == ('S', 'cmd') and isinstance(e['val'], tuple) and e['val'][0] == 'obj':
                fr = short(t.frm)
                ok = fr in ('SEARCH_COMMAND', 'PRINT_CMD') and e['val'][1] == 'CMDS[%s]' % (t.pre.mem.get(('S', 'index')),)
                ctx.check('single-selector', ok, t.site(e), 'the current command is set to %s in state %s (index %s)' % (e['val'][1], fr, t.pre.mem.get(('S', 'index'))))
        # candidates are counted exactly (a counter that can wrap would make an ambiguous prefix look unique)
        for e in t.stores():
            if e['loc'] == ('S', 'partial_cntr') and t.frm.endswith('SEARCH_COMMAND'):
                old = t.pre.mem.get(('S', 'partial_cntr'))
                ctx.check('tie-break', is_lin(old) and is_lin(e['val']) and e['val'] == old.addc(1), t.site(e),
                          'the candidate counter goes from %s to %s: it does not count every candidate (narrow type or wrong step)' % (old, e['val']))
        # tie-break at the end of the scan
        if t.frm.endswith('SEARCH_COMMAND') and t.to.endswith('COMMAND_FOUND'):
            sel = [e for e in t.stores() if e['loc'] == ('S', 'cmd')]
            pc = t.raw.mem.get(('S', 'partial_cntr'))
            full = bool(sel) and not any(e['loc'] == ('S', 'partial_cntr') for e in t.stores())
            if not full:
                ctx.check('tie-break', is_lin(pc) and t.raw.facts.eq(pc, 1) is True, t.site(), 'an abbreviation is accepted with %s candidates' % (pc,))
            else:
                ctx.instance('tie-break')
    # case folding and the name alphabet, all 256 byte values
    # the case-folding helper: the only char -> char function of the unit (however it computes)
    up = _find_fn(m, lambda fn: len(fn['_params']) == 1 and fn['type']['qualType'].replace('const ', '').startswith('char (char'))
    alpha = None
    for name, fn in m.prog.functions.items():
        if len(fn['_params']) == 1 and 'char' in fn['_params'][0]['type']['qualType'] and fn['type']['qualType'].startswith('int'):
            if sum(1 for x in walk(fn['_body']) if x.get('kind') == 'CharacterLiteral') >= 9:
                alpha = name
    if up is None or alpha is None:
        raise AnalysisBroken('anchor vanished: case-fold / name-alphabet helpers (%s, %s)' % (up, alpha))
    legal = set(range(ord('A'), ord('Z') + 1)) | set(range(ord('0'), ord('9') + 1)) | set(map(ord, '+#$@_%&'))
    for c in range(-128, 128):
        outs = m.run(up, [Lin.c(c)])
        r = set(cval(rv) for s, rv in outs)
        want = c - 32 if ord('a') <= c <= ord('z') else c
        ctx.check('fold', r == {want}, ctx.site(up, m.fn_line(up)), 'byte %d folds to %s' % (c, sorted(map(str, r))))
        outs = m.run(alpha, [Lin.c(c)])
        r = set(cval(rv) != 0 for s, rv in outs)
        ctx.check('alphabet', r == {c in legal}, ctx.site(alpha, m.fn_line(alpha)), 'byte %d (%r) is %s as a name character' % (c, chr(c) if 32 <= c < 127 else c, 'accepted' if True in r else 'rejected'))
    ctx.extra['exhaustive'] = True
    # the reader folds everything except argument bytes
    for t in ts:
        for e in t.evs('io_read'):
            if not e['ok']:
                continue
            ch = t.raw.mem.get(('S', 'current_char'))
            raw_byte = e.get('ch')
            if t.frm.endswith('PARSE_COMMAND_ARGS'):
                continue
            # folded: for a lower-case letter the stored value is byte-32; never the raw lower-case byte
            lo, hi = t.raw.facts.lower(ch), t.raw.facts.upper(ch)
            ctx.check('fold', not (lo >= ord('a') and hi <= ord('z')), t.site(e), 'a lower-case byte is kept unfolded in state %s' % short(t.frm))
    _lanes(ctx)
    _match_step(ctx, ts)
    return ctx


def _has_op(fn, op):
    return any(x.get('kind') == 'BinaryOperator' and x.get('opcode') == op for x in walk(fn['_body']))


def _find_fn(m, pred):
    hits = [n for n, fn in m.prog.functions.items() if pred(fn)]
    return hits[0] if len(hits) == 1 else None


def _lane_accessors(m):
    """the two functions that address a sub-byte lane of the command buffer by a flat index: they take
    (self, index[, value]), subscript an array and split the index with a shift or a division"""
    getters, setters = [], []
    for name, fn in m.prog.functions.items():
        ps = fn['_params']
        body = list(walk(fn['_body']))
        if not any(x.get('kind') == 'ArraySubscriptExpr' for x in body):
            continue
        if not any(x.get('kind') in ('BinaryOperator', 'CompoundAssignOperator') and x.get('opcode') in ('>>', '/', '>>=', '/=') for x in body):
            continue
        rt = fn['type']['qualType'].split('(')[0].strip()
        if len(ps) == 2 and rt in ('uint8_t', 'unsigned char'):
            getters.append(name)
        elif len(ps) == 3 and rt == 'void':
            setters.append(name)
    if len(getters) != 1 or len(setters) != 1:
        raise AnalysisBroken('anchor vanished: match-lane accessors (getters %s, setters %s)' % (getters, setters))
    return getters[0], setters[0]


def _lanes(ctx):
    """the 2-bit match lanes: writing lane i changes lane i only, reads back the value written, for every
    position in a byte and every previous byte content that the code can produce"""
    m = ctx.model
    getter, setter = _lane_accessors(m)
    n = 0
    for b0 in (0x55, 0x00, 0xAA, 0x66, 0x99, 0x12):
        for i in range(8):
            for v in (0, 1, 2):
                def setup(s, b0=b0):
                    s.pnull['DESC.unsolicited_buf'] = False
                    for k in range(2):
                        s.ghost[('byte', ('BUF',), Lin.c(k))] = Lin.c(b0)
                    s.facts.iv['f:commands_num'] = (8, 8)
                    s.mem[('S', 'commands_num')] = Lin.atom('f:commands_num')
                    for k in range(8):
                        s.facts.iv['GRPS[%d].disable' % k] = (0, 0)
                        s.facts.iv['CMDS[%d].disable' % k] = (0, 0)
                outs = m.run(setter, [SELF, Lin.c(i), Lin.c(v)], setup=setup)
                if len(outs) != 1:
                    ctx.check('lanes', False, ctx.site(setter, m.fn_line(setter)), 'lane update is not deterministic')
                    continue
                post = outs[0][0]
                for j in range(8):
                    old = (b0 >> ((j % 4) * 2)) & 3
                    st2 = post.copy()
                    st2.trace = None
                    st2.stack = ()
                    r = m.ms.it.run_function(getter, st2, [SELF, Lin.c(j)])
                    got = set(cval(rv) for s, rv in r)
                    want = v if j == i else old
                    n += 1
                    ctx.check('lanes', got == {want}, ctx.site(setter, m.fn_line(setter)),
                              'after setting lane %d to %d (byte was 0x%02X), lane %d reads %s (expected %d)' % (i, v, b0, j, sorted(map(str, got)), want))
    ctx.extra['lane_cases'] = n


def _match_step(ctx, ts):
    """per-character update of one candidate: eliminated iff typed longer than the name or the folded characters
    differ; FULL iff equal at the last character"""
    m = ctx.model
    n = 0
    lane_setter = _lane_accessors(m)[1]
    for t in ts:
        if not t.frm.endswith('UPDATE_COMMAND_STATE'):
            continue
        for seq in trace_paths(t.t['trace'], limit=20000, keep=_KEEP_TAB):
            sets = [e for e in seq if e['k'] == 'enter' and e['name'] == lane_setter and len(e.get('args', ())) == 3 and cval(e['args'][2]) in (0, 1, 2)]
            if not sets:
                continue
            n += 1
            newv = cval(sets[0]['args'][2])
            ln = t.pre.mem.get(('S', 'length'))
            nm = [e for e in seq if e['k'] == 'rd' and e['region'][0] == 'dstr']
            f = t.raw.facts
            # length vs strlen(name) and the compared character on this path
            sl = None
            for e in seq:
                if e['k'] == 'lib' and e.get('name') == 'strlen' and isinstance(e.get('ptr'), tuple) and e['ptr'][0] == 'mem' and e['ptr'][1][0] == 'dstr':
                    sl = Lin.atom('strlen(%s)' % e['ptr'][1][1])
            if sl is None or not is_lin(ln):
                ctx.check('match-step', False, t.site(), 'the candidate update does not compare the typed length with the name length')
                continue
            cmps = [e for e in seq if e['k'] == 'cap_cmp' and any(a.startswith('strlen(') for a, _ in e['form'].terms)]
            # strlen - length <= -1 on this path: typed more characters than the name has
            longer = any(e['op'] in ('>', '!<=', '<', '!>=') and e['bound'] is not None and e['form'] == sl.sub(ln) and e['bound'] <= -1 for e in cmps)
            equal = any(e['op'] == '==' and e['bound'] == 0 and e['form'] in (sl.sub(ln), ln.sub(sl)) for e in cmps)
            lastchar = bool(nm) and all(x['off'] == ln.addc(-1) for x in nm)
            if newv == 2:
                ctx.check('match-step', equal and lastchar and not longer, t.site(), 'a candidate becomes a full match without length == strlen(name) and a compared last character')
            elif newv == 0:
                ctx.check('match-step', longer or lastchar, t.site(), 'a candidate is eliminated without being too long or differing at character length-1')
            else:
                ctx.check('match-step', False, t.site(), 'a candidate is reset to PARTIAL during the update')
    ctx.extra['match_step_paths'] = n
    if n == 0:
        raise AnalysisBroken('no candidate update found in UPDATE_COMMAND_STATE')


# ------------------------------------------------------------------------------------- C07
_WRAP = re.compile(r'^(?:cast[us]\d+|ovf|wrap[us]?\d*)\((.*)\)$')
_LINSTR = re.compile(r'^(?:(-?\d+)\*|(-))?([A-Z]@[0-9:#]+)(?:([+-]\d+))?$')


def _unwrap(a):
    """a value that went through width conversions (derived atoms named cast..(x), ovf(x), wrap..(x)) back to the
    linear form x underneath, when x is a linear form of one load atom; anything else is returned unchanged"""
    for _ in range(6):
        sg = a.single() if is_lin(a) else None
        if sg is None or sg[1] != 1 or sg[2] != 0:
            return a
        mm = _WRAP.match(sg[0])
        if not mm:
            return a
        inner = _LINSTR.match(mm.group(1))
        if inner is None:
            if _WRAP.match(mm.group(1)):
                a = Lin.atom(mm.group(1))
                continue
            return a
        a = Lin.atom(inner.group(3), -1 if inner.group(2) else int(inner.group(1) or 1), int(inner.group(4) or 0))
    return a


def c07(ctx):
    m = ctx.model
    E = m.prog.enums
    ctx.assume('decides agreement of the formatter and parser tables, not the numeric identity parse(format(v)) = v nor capacity interplay')
    T_INT, T_UINT, T_HEX, T_HB, T_STR = (E['CAT_VAR_INT_DEC'], E['CAT_VAR_UINT_DEC'], E['CAT_VAR_NUM_HEX'], E['CAT_VAR_BUF_HEX'], E['CAT_VAR_BUF_STRING'])
    # formatter side
    loads = {}      # (type, size) -> set of (bits, signed)
    fmts = {}       # (type, size) -> set of (format string, arg load type)
    esc_fmt = {}    # byte -> escape text
    sep_out = set()
    idents = []
    for which in ('cmd', 'evt'):
        ex, ts = transitions(ctx, which)
        for t in ts:
            if not (t.frm.endswith('STATE_FORMAT_READ_ARGS') and 'AFTER' not in t.frm):
                continue
            for e in t.events:
                if e['k'] == 'wr' and e['region'][0] in OUT_REGIONS and cval(e.get('val')) is not None and cval(e['val']) != 0 and e['fn'] != None:
                    if t.to == t.frm:
                        sep_out.add(chr(cval(e['val'])))
            for seq in trace_paths(t.t['trace'], limit=50000, keep=_KEEP_TAB):
                typ = _labels(seq, '.type')
                siz = _labels(seq, '.data_size')
                if not typ:
                    continue
                ty = typ[0]
                last_rd = None
                pending_cmp = None
                for e in seq:
                    if e['k'] == 'rd' and e['region'][0] == 'vdata':
                        last_rd = e
                        if ty in (T_INT, T_UINT, T_HEX) and siz:
                            loads.setdefault((ty, siz[0]), set()).add(tuple(e['itype']) if e.get('itype') else None)
                    elif e['k'] == 'fmt':
                        key = (ty, siz[0] if siz and ty in (T_INT, T_UINT, T_HEX) else None)
                        fmts.setdefault(key, set()).add((e.get('fmt'), tuple(last_rd['itype']) if last_rd is not None and last_rd.get('itype') else None))
                        # identity: the printed operand is the loaded value itself (or the constant 0 of the write-only branch)
                        a = e['args'][0] if e.get('args') else None
                        if ty in (T_INT, T_UINT, T_HEX, T_HB) and last_rd is not None and last_rd.get('atom') and is_lin(a):
                            a = _unwrap(a)
                            sg = a.single() if is_lin(a) else None
                            if not is_lin(a):
                                idents.append((None, last_rd, a))
                            elif a.is_const():
                                idents.append((a.const == 0, last_rd, a))
                            elif sg is not None and sg[0] == last_rd['atom']:
                                idents.append((sg[1] == 1 and sg[2] == 0, last_rd, a))
                            else:
                                idents.append((None, last_rd, a))
                    elif e['k'] == 'bytecmp' and e['eq'] and ty == T_STR and e['src'][0][0] == 'vdata':
                        pending_cmp = e['const']
                    elif e['k'] == 'copy' and ty == T_STR and pending_cmp is not None and e.get('text'):
                        if e['text'].startswith('\\'):
                            esc_fmt[pending_cmp] = e['text']
                        pending_cmp = None
    # parser side
    ex, ts = transitions(ctx, 'cmd')
    stores = {}
    esc_par = {}
    sep_in = set()
    for t in ts:
        if not t.frm.endswith('PARSE_WRITE_ARGS'):
            continue
        for seq in trace_paths(t.t['trace'], limit=50000, keep=_KEEP_TAB):
            typ = _labels(seq, '.type')
            siz = _labels(seq, '.data_size')
            if not typ:
                continue
            ty = typ[0]
            sw = None
            for e in seq:
                if e['k'] == 'wr' and e['region'][0] == 'vdata' and e.get('itype'):
                    if ty in (T_INT, T_UINT, T_HEX) and siz:
                        stores.setdefault((ty, siz[0]), set()).add(tuple(e['itype']))
                    if ty == T_STR and sw is not None and cval(e.get('val')) is not None:
                        esc_par[sw] = cval(e['val'])
                        sw = None
                elif e['k'] == 'switch' and ty == T_STR and is_lin(e['value']) and e['value'].single() and e['value'].single()[0].startswith('B@') and e['label'] != 'default':
                    sw = e['label']
                elif e['k'] == 'exit' and cval(e.get('ret')) == 1 and len(e['stack']) == 3:
                    # a decoder reporting "another argument follows": which byte did it see last
                    cm = [x for x in seq if x['k'] == 'bytecmp' and x['eq']]
                    if cm:
                        sep_in.add(chr(cm[-1]['const']) if 0 < cm[-1]['const'] < 128 else cm[-1]['const'])
    site = 'src/cat.c:format/parse'
    for key in sorted(set(loads) | set(stores), key=repr):
        ctx.check('width', loads.get(key) == stores.get(key) and loads.get(key) is not None and len(loads[key]) == 1, site,
                  'variable type %s size %s: formatted from %s but parsed into %s' % (key[0], key[1], sorted(loads.get(key) or [], key=repr), sorted(stores.get(key) or [], key=repr)))
    if len(loads) < 9 or len(stores) < 9:
        raise AnalysisBroken('numeric load/store table incomplete: %d / %d entries' % (len(loads), len(stores)))
    want = {(T_INT, 1): '%d', (T_INT, 2): '%d', (T_INT, 4): '%d', (T_UINT, 1): '%u', (T_UINT, 2): '%u', (T_UINT, 4): '%u',
            (T_HEX, 1): '0x%02X', (T_HEX, 2): '0x%04X', (T_HEX, 4): '0x%08X', (T_HB, None): '%02X'}
    for key, f in want.items():
        got = fmts.get(key, set())
        ctx.check('directive', set(x[0] for x in got) == {f}, site, 'variable type %s size %s is formatted with %s (expected %s)' % (key[0], key[1], sorted(map(str, got)), f))
        if key[0] == T_HB:
            ctx.check('directive', all(x[1] in ((8, False), None) for x in got), site, 'hex-buffer bytes are formatted from %s (sign extension would print more than two digits)' % sorted(map(str, got)))
    seen_id = set()
    n_same = 0
    for ok, e, a in idents:
        k = (e['fn'], e['line'], repr(a))
        if k in seen_id:
            continue
        seen_id.add(k)
        if ok is None:
            continue        # an operand that is not a linear form of the load alone: not decided
        n_same += 1
        ctx.check('identity', ok, 'src/cat.c:%s:%s' % (e['line'], e['fn']), 'the formatted operand is %r, not the value loaded from the variable' % (a,))
    if n_same < 4:
        raise AnalysisBroken('operand of the numeric formatters not related to the load (%d instances)' % n_same)
    # escapes: what the formatter writes for a byte must decode to that byte
    ctx.extra['formatter_escapes'] = {str(k): v for k, v in esc_fmt.items()}
    ctx.extra['parser_escapes'] = {str(k): v for k, v in esc_par.items()}
    for b, text in sorted(esc_fmt.items()):
        code = ord(text[1]) if len(text) == 2 else None
        ctx.check('escapes', code is not None and esc_par.get(code) == b, site, 'byte %d is written as %r, which the parser decodes to %s' % (b, text, esc_par.get(code)))
    for special in (ord('"'), ord('\\')):
        ctx.check('escapes', special in esc_fmt, site, 'the formatter does not escape %r, which the string parser treats specially' % chr(special))
    if len(esc_par) < 3:
        raise AnalysisBroken('escape table of the string parser not extracted (%s)' % esc_par)
    ctx.check('separator', sep_out == {','} and ',' in sep_in, site, 'variables are joined with %s but the parsers continue after %s' % (sorted(sep_out), sorted(map(str, sep_in))))
    ctx.sample({'loads': {str(k): sorted(map(str, v)) for k, v in loads.items()}, 'directives': {str(k): sorted(map(str, v)) for k, v in fmts.items()}})
    return ctx


RULES = {'C19': c19, 'C02': c02, 'C07': c07}
