"""Command line driver: property -> rules -> verdict, evidence, exit code."""
import json
import os
import sys
import time
import traceback

from .frontend import AnalysisBroken, VERIF
from .core import Model, Ctx

EVID = os.environ.get('CATSA_EVID') or os.path.join(VERIF, 'evidence')


def registry():
    from . import rules_api
    reg = {
        'C16': rules_api.c16,
        'C17': rules_api.c17,
        'C18': rules_api.c18,
        'C13': rules_api.c13,
    }
    for modname in ('rules_fsm', 'rules_mem', 'rules_tab'):
        try:
            mod = __import__('catsa.' + modname, fromlist=['RULES'])
        except ImportError:
            continue
        reg.update(getattr(mod, 'RULES', {}))
    return reg


def load_expect():
    p = os.path.join(VERIF, 'catsa', 'expect.json')
    if os.path.exists(p):
        return json.load(open(p))
    return {}


def load_known():
    p = os.path.join(VERIF, 'known_findings.json')
    if os.path.exists(p):
        return json.load(open(p)).get('known', [])
    return []


def jsonable(x):
    if isinstance(x, (str, int, float, bool)) or x is None:
        return x
    if isinstance(x, dict):
        return {str(k): jsonable(v) for k, v in x.items()}
    if isinstance(x, (list, tuple, set, frozenset)):
        return [jsonable(v) for v in (sorted(x, key=repr) if isinstance(x, (set, frozenset)) else x)]
    return repr(x)


def run_property(pid, tier, seed):
    t0 = time.time()
    reg = registry()
    if pid not in reg:
        print('property %s is not claimed (see MANIFEST.json not_applicable)' % pid)
        return 2
    os.makedirs(EVID, exist_ok=True)
    evfile = os.path.join(EVID, '%s.json' % pid)
    viol_file = os.path.join(EVID, '%s.violation.json' % pid)
    expect = load_expect().get(pid, {})
    known = [k for k in load_known() if k.get('property') == pid]
    configs = [((), True)]
    ctxs = []
    ctx = None
    try:
        rmod = getattr(reg[pid], '__module__', '').split('.')[-1]
        Model.guard_modules = tuple(x for x in (rmod, 'dfa' if rmod == 'rules_mem' else None, 'graph', 'rules_fsm') if x)
        for defines, ndebug in configs:
            model = Model(defines=defines, ndebug=ndebug)
            ctx = Ctx(pid, model, tier)
            reg[pid](ctx)
            ctxs.append(ctx)
    except AnalysisBroken as ex:
        if ctx is not None and ctx.findings:
            # rules that did run reported concrete violations: those stand, whatever stopped the rest
            print('note: the analysis of %s stopped early (%s); reporting what the rules that ran found' % (pid, ex))
            ctx.extra['analysis_stopped_early'] = str(ex)
            ctx.extra.pop('_separation_breach', None)
            ctxs.append(ctx)
        else:
            print('ANALYSIS-BROKEN property=%s: %s' % (pid, ex))
            return 2
    except Exception:
        traceback.print_exc()
        print('ANALYSIS-BROKEN property=%s: internal error' % pid)
        return 2
    findings = []
    for ctx in ctxs:
        findings.extend(ctx.findings)
    for ctx in ctxs:
        if not findings and ctx.extra.get('_separation_breach'):
            print('ANALYSIS-BROKEN property=%s: %s' % (pid, ctx.extra['_separation_breach']))
            return 2
    # de-duplicate by rule + site + message
    seen = {}
    for f in findings:
        seen.setdefault((f.rule, f.site, f.msg), f)
    findings = list(seen.values())
    unlisted = []
    for f in findings:
        kf = None
        for k in known:
            if k.get('rule') == f.rule and k.get('site_function') and k['site_function'] in f.site:
                kf = k
        if kf is not None:
            print('KNOWN-FINDING: property=%s %s: %s' % (pid, f.site, f.msg))
        else:
            unlisted.append(f)
    ctx = ctxs[0]
    nob = sum(c for c in ctx.counts.values())
    wall = round(time.time() - t0, 2)
    ev = {
        'property_id': pid, 'tier': tier, 'seed': seed, 'level': 'other',
        'coverage': {
            'explanation': expect.get('explanation', 'static rules over the type-checked program of /repo/src (see DESIGN.md)'),
            'obligations': nob,
            'discharged': nob - len(findings),
            'rule_instances': ctx.counts,
            'samples': jsonable(ctx.samples) or [{'rule_instances': ctx.counts}],
            'functions_analysed': len(ctx.model.prog.functions),
            'units': sorted(os.path.relpath(f, '/repo') for f in ctx.model.prog.files),
            'configurations': [{'defines': list(d), 'ndebug': n} for d, n in configs],
            'trusted_base': ['clang-14 front end (type-checked AST)', 'catsa abstract interpreter transfer functions',
                             'reference tables in catsa/rules_*.py'],
            'timing': ctx.model.timing,
        },
        'assumptions': ctx.assumptions,
        'wall_s': wall,
        'violations': len(unlisted),
    }
    ev['coverage'].update(jsonable({k: v for k, v in ctx.extra.items() if not k.startswith('_')}))
    exs = [e for e in (ctx.model.cmd, ctx.model.evt) if e is not None]
    if exs:
        ev['coverage']['states'] = sum(len(e.store) for e in exs)
        ev['coverage']['transitions'] = sum(len(e.transitions) for e in exs)
        ev['coverage']['machines'] = [e.which for e in exs]
    with open(evfile, 'w') as fh:
        json.dump(ev, fh, indent=1)
    for f in unlisted:
        print('%s: [%s] %s' % (f.site, f.rule, f.msg))
    print('%s: %d rule instances, %d violations, %.1fs' % (pid, nob, len(unlisted), wall))
    if not unlisted:
        # instance floors: a rule that matches (almost) nothing must not pass vacuously
        for c_ in ctxs:
            for rid, floor in expect.get('floors', {}).items():
                got = c_.counts.get(rid, 0)
                if got < floor:
                    print('ANALYSIS-BROKEN property=%s: rule %s matched %d instances, fewer than the floor %d recorded for the confirmed tree' % (pid, rid, got, floor))
                    return 2
    if unlisted:
        with open(viol_file, 'w') as fh:
            json.dump({'property': pid, 'violations': [{'rule': f.rule, 'site': f.site, 'message': f.msg, 'detail': jsonable(f.detail)} for f in unlisted]}, fh, indent=1)
        print('VIOLATION property=%s replay=%s' % (pid, viol_file))
        return 1
    if os.path.exists(viol_file):
        os.remove(viol_file)
    return 0


def main(argv):
    tier = os.environ.get('VERIF_TIER', 'quick')
    seed = int(os.environ.get('VERIF_SEED', '0') or 0)
    args = []
    i = 0
    while i < len(argv):
        if argv[i] == '--tier':
            tier = argv[i + 1]
            i += 2
            continue
        args.append(argv[i])
        i += 1
    if not args:
        print(__doc__)
        return 2
    if tier not in ('quick', 'thorough'):
        tier = 'quick'
    if args[0] == 'all':
        rc = 0
        for pid in sorted(registry()):
            r = run_property(pid, tier, seed)
            rc = max(rc, r)
        return rc
    if args[0] == 'replay':
        # re-run the property of a violation file and show the recorded rule instances next to the fresh ones
        d = json.load(open(args[1]))
        print('recorded violations of %s:' % d['property'])
        for v in d.get('violations', []):
            print('  %s: [%s] %s' % (v['site'], v['rule'], v['message']))
        print('re-running the property on the current tree:')
        return run_property(d['property'], tier, seed)
    if args[0] == 'selftest':
        import subprocess
        rc = 0
        for kind, tool in (('seeded', 'seedtest.py'), ('refactors', 'refactortest.py')):
            base = os.path.join(VERIF, kind)
            for name in sorted(os.listdir(base)) if os.path.isdir(base) else []:
                if kind == 'seeded':
                    meta = json.load(open(os.path.join(base, name, 'meta.json')))
                    r = subprocess.run([sys.executable, os.path.join(VERIF, 'tools', tool), os.path.join(base, name), name, meta['breaks_property'], meta['breaks_property']],
                                       capture_output=True, text=True)
                    ok = ("fired=['%s']" % meta['breaks_property']) in r.stdout or meta['breaks_property'] in r.stdout.split('fired=')[-1].split(']')[0]
                    if not meta.get('target_check_fires', True):
                        ok = True
                else:
                    r = subprocess.run([sys.executable, os.path.join(VERIF, 'tools', tool), name], capture_output=True, text=True)
                    ok = 'alarms {}' in r.stdout
                print('%s %s: %s' % (kind, name, 'ok' if ok else 'UNEXPECTED ' + r.stdout.strip()[-300:]))
                rc = rc or (0 if ok else 1)
        return rc
    if args[0] == 'warm':
        m = Model()
        m.machines()
        print('model ready', m.timing)
        for cap in (2, 3):
            m2 = Model(defines=('-DCAT_UNSOLICITED_CMD_BUFFER_SIZE=%d' % cap,))
            m2.machine('evt')
            print('model (queue capacity %d) ready' % cap, m2.timing)
        return 0
    return run_property(args[0], tier, seed)
