"""Rules about the exported API functions: C16 (mutex bracket), C17 (lockset),
C18 (busy / hold predicates)."""
from .frontend import AnalysisBroken, node_pos
from .interp import trace_paths, trace_events, is_lin, SELF
from .lin import Lin
from .graph import Index

LOCKING_API = ['cat_service', 'cat_is_busy', 'cat_is_hold', 'cat_is_unsolicited_buffer_full',
               'cat_trigger_unsolicited_event', 'cat_trigger_unsolicited_read', 'cat_trigger_unsolicited_test',
               'cat_hold_exit']
# fields set once by cat_init and never written again: reading them needs no lock
INIT_ONLY = {('S', 'desc'), ('S', 'io'), ('S', 'mutex'), ('S', 'commands_num')}


def _const(v):
    return v.const if is_lin(v) and v.is_const() else None


def _relevant(e):
    k = e['k']
    if k in ('lock', 'unlock', 'call_opaque', 'cb', 'io_read', 'io_write', 'evt_step'):
        return True
    if k == 'st':
        return True
    if k == 'ld':
        return e['loc'] not in INIT_ONLY
    return False


def bracket_functions(model):
    idx = Index(model.prog)
    direct = set(idx.functions_with_role('mutex.'))
    exported = set(model.exported_functions())
    out = set(direct & exported)
    # exported wrappers around a locking function
    for f in exported:
        if f not in out and (idx.reachable(f) & direct):
            out.add(f)
    return idx, direct, sorted(out)


def c16(ctx):
    m = ctx.model
    E = m.prog.enums
    idx, direct, bracket = bracket_functions(m)
    exported = m.exported_functions()
    ctx.extra['bracket_functions'] = bracket
    ctx.assume('the mutex interface, when given, has both callbacks set; callbacks do not re-enter the locking API while the lock is held')
    # completeness: the documented locking API locks
    for f in LOCKING_API:
        if f not in m.prog.functions:
            raise AnalysisBroken('anchor vanished: exported function %s' % f)
        ctx.check('completeness', f in bracket, ctx.site(f, m.fn_line(f)),
                  'exported function %s of the locking API never takes the lock' % f)
    # WHO: mutex roles are called only by exported functions (no helper locks behind the API's back)
    for f, role, line in idx.role_sites:
        if role.startswith('mutex.'):
            ctx.check('who-locks', f in exported, ctx.site(f, line),
                      '%s called from non-exported function %s' % (role, f))
    # bracket shape, per function and per path; callees that are not exported are opaque
    allowed = set(exported)
    npaths = 0
    for f in bracket:
        fn = m.prog.functions[f]
        args = [SELF]
        for p in fn['_params'][1:]:
            q = p['type'].get('desugaredQualType', p['type']['qualType'])
            if m.prog.int_type(q) is not None:
                args.append(None)
            else:
                args.append(('obj', 'ARG_' + p['name']))

        def setup(s, args=args, fn=fn):
            for i, p in enumerate(fn['_params'][1:], 1):
                if args[i] is None:
                    args[i] = m.ms.it.fresh(s, 'arg:' + p['name'], p['type'])
                else:
                    s.pnull[args[i][1]] = False
        outs = m.run(f, args, setup=setup, shallow=allowed)
        for s, rv in outs:
            mutex_null = s.pnull.get('MUTEX')
            for seq in trace_paths(s.trace):
                npaths += 1
                rel = [e for e in seq if _relevant(e)]
                site = ctx.site(f, m.fn_line(f))
                if mutex_null is True:
                    ctx.check('bracket', not any(e['k'] in ('lock', 'unlock') for e in rel), site,
                              'mutex callback invoked although no mutex is configured')
                    continue
                if not rel:
                    ctx.check('bracket', True, site, '')
                    continue
                first = rel[0]
                if not ctx.check('bracket', first['k'] == 'lock', ctx.site(first['fn'], first.get('line')),
                                 '%s: %s happens before the lock is taken' % (f, _descr(first))):
                    continue
                if not first['ok']:
                    ok = len(rel) == 1 and _const(rv) == E['CAT_STATUS_ERROR_MUTEX_LOCK']
                    ctx.check('lock-fail', ok, site,
                              '%s: after a failed lock the call must return ERROR_MUTEX_LOCK having done nothing (does: %s, returns %s)'
                              % (f, [_descr(e) for e in rel[1:]], rv))
                    continue
                locks = [i for i, e in enumerate(rel) if e['k'] == 'lock']
                unlocks = [i for i, e in enumerate(rel) if e['k'] == 'unlock']
                ctx.check('no-nesting', len(locks) == 1, site, '%s takes the lock %d times on one path' % (f, len(locks)))
                if not ctx.check('bracket', len(unlocks) == 1, site,
                                 '%s: path with %d unlock calls after a successful lock (returns %s)' % (f, len(unlocks), rv)):
                    continue
                u = unlocks[0]
                ctx.check('bracket', u == len(rel) - 1, ctx.site(rel[-1]['fn'], rel[-1].get('line')),
                          '%s: %s happens after the lock was released' % (f, _descr(rel[-1])))
                if not rel[u]['ok']:
                    ctx.check('unlock-fail', _const(rv) == E['CAT_STATUS_ERROR_MUTEX_UNLOCK'], site,
                              '%s: a failed unlock must be reported as ERROR_MUTEX_UNLOCK (returns %s)' % (f, rv))
                # no callee inside the locked region may lock again
                for e in rel[1:u]:
                    if e['k'] == 'call_opaque':
                        reach = idx.reachable(e['name']) | {e['name']}
                        ctx.check('no-nesting', not (reach & direct), ctx.site(e['fn'], e.get('line')),
                                  '%s calls %s with the lock held, which can lock again' % (f, e['name']))
        if len(ctx.samples) < 8:
            ctx.sample({'function': f, 'paths': len(outs)})
    ctx.extra['bracket_paths'] = npaths
    # everything else that is exported is an observer (store-free, callback-free) or cat_init
    for f in exported:
        if f in bracket or f == 'cat_init':
            continue
        fn = m.prog.functions[f]
        args = [SELF]
        for p in fn['_params'][1:]:
            q = p['type'].get('desugaredQualType', p['type']['qualType'])
            args.append(None if m.prog.int_type(q) is not None else ('obj', 'ARG_' + p['name']))

        def setup(s, args=args, fn=fn):
            for i, p in enumerate(fn['_params'][1:], 1):
                if args[i] is None:
                    args[i] = m.ms.it.fresh(s, 'arg:' + p['name'], p['type'])
                elif 'char' in p['type']['qualType']:
                    args[i] = ('mem', ('dstr', 'ARG_' + p['name']), Lin.c(0))
                    s.pnull['ARG_' + p['name']] = False
                else:
                    s.pnull[args[i][1]] = False
        try:
            outs = m.run(f, args, setup=setup)
        except AnalysisBroken as ex:
            raise
        bad = []
        for s, rv in outs:
            for e in trace_events(s.trace):
                if e['k'] in ('st', 'cb', 'io_read', 'io_write'):
                    bad.append(e)
        ctx.check('inside', not bad, ctx.site(f, m.fn_line(f)),
                  'exported function %s changes parser state or calls back without taking the lock: %s'
                  % (f, sorted(set(_descr(e) for e in bad))[:4]))
    return ctx


def _descr(e):
    k = e['k']
    if k == 'st':
        return 'store to %s' % '.'.join(str(x) for x in e['loc'][1:])
    if k == 'ld':
        return 'load of %s' % '.'.join(str(x) for x in e['loc'][1:])
    if k == 'call_opaque':
        return 'call of %s' % e['name']
    if k == 'cb':
        return 'callback %s' % e['kind']
    return k


def c17(ctx):
    """lockset discipline: every access to mutable parser state by the locking API is inside the lock"""
    m = ctx.model
    idx, direct, bracket = bracket_functions(m)
    exported = set(m.exported_functions())
    ctx.assume('the user-supplied mutex is a correct mutual-exclusion primitive')
    ctx.assume('the two documented lock-free observers and cat_init are not called concurrently with the locking API')
    n_acc = 0
    for f in bracket:
        fn = m.prog.functions[f]
        args = [SELF]
        for p in fn['_params'][1:]:
            q = p['type'].get('desugaredQualType', p['type']['qualType'])
            args.append(None if m.prog.int_type(q) is not None else ('obj', 'ARG_' + p['name']))

        def setup(s, args=args, fn=fn):
            s.pnull['MUTEX'] = False
            for i, p in enumerate(fn['_params'][1:], 1):
                if args[i] is None:
                    args[i] = m.ms.it.fresh(s, 'arg:' + p['name'], p['type'])
                else:
                    s.pnull[args[i][1]] = False
        outs = m.run(f, args, setup=setup, shallow=exported)
        for s, rv in outs:
            for seq in trace_paths(s.trace):
                held = False
                for e in seq:
                    if e['k'] == 'lock':
                        held = bool(e['ok'])
                    elif e['k'] == 'unlock':
                        held = False
                    elif e['k'] in ('ld', 'st', 'call_opaque', 'cb', 'io_read', 'io_write'):
                        if e['k'] == 'ld' and e['loc'] in INIT_ONLY:
                            continue
                        n_acc += 1
                        ctx.check('lockset', held, ctx.site(e['fn'], e.get('line')),
                                  '%s: %s without holding the lock' % (f, _descr(e)))
    ctx.extra['accesses_checked'] = n_acc
    # the protected fields are written nowhere else: helpers reachable only through the locking API or cat_init
    owners = set(bracket) | {'cat_init'}
    for f in sorted(exported - owners):
        for g in idx.reachable(f) | {f}:
            for (rec, fld), sites in idx.field_stores.items():
                if rec in ('cat_object', 'cat_unsolicited_fsm', 'cat_unsolicited_cmd'):
                    for (fn_, line) in sites:
                        if fn_ == g:
                            ctx.check('lockset', False, ctx.site(fn_, line),
                                      'field %s.%s written on a path from lock-free API function %s' % (rec, fld, f))
    ctx.instance('lockset', 0)
    return ctx


def c18(ctx):
    m = ctx.model
    E = m.prog.enums
    st = m.prog.enum_types['cat_state']['consts']
    us = m.prog.enum_types['cat_unsolicited_state']['consts']
    BUSY, OK, HOLD = E['CAT_STATUS_BUSY'], E['CAT_STATUS_OK'], E['CAT_STATUS_HOLD']
    idle, uidle, uflush = st['CAT_STATE_IDLE'], us['CAT_UNSOLICITED_STATE_IDLE'], us['CAT_UNSOLICITED_STATE_FLUSH_IO_WRITE']
    idx, direct, bracket = bracket_functions(m)
    for f in ('cat_is_busy', 'cat_is_hold'):
        ctx.check('locked', f in bracket, ctx.site(f, m.fn_line(f)), '%s does not take the lock' % f)
    table = {}
    for sname, sv in st.items():
        for uname, uv in us.items():
            def setup(s, sv=sv, uv=uv):
                s.pnull['MUTEX'] = True
                s.mem[('S', 'state')] = Lin.c(sv)
                s.mem[('S', 'unsolicited_fsm', 'state')] = Lin.c(uv)
            outs = m.run('cat_is_busy', [SELF], setup=setup)
            rets = set()
            for s, rv in outs:
                rets.add(_const(rv) if _const(rv) is not None else '?')
            table[(sname, uname)] = rets
            site = ctx.site('cat_is_busy', m.fn_line('cat_is_busy'))
            if sv != idle:
                ctx.check('busy-table', rets == {BUSY}, site,
                          'cat_is_busy can return %s while the command machine is in %s (a line is in progress)' % (sorted(map(str, rets)), sname))
            elif uv == uflush:
                ctx.check('busy-table', rets == {BUSY}, site,
                          'cat_is_busy can return %s while an unsolicited line is being emitted (event state %s)' % (sorted(map(str, rets)), uname))
            elif uv == uidle:
                ctx.check('busy-table', rets == {OK}, site,
                          'cat_is_busy returns %s for a quiescent parser (IDLE/IDLE)' % sorted(map(str, rets)))
            else:
                ctx.check('busy-table', rets <= {OK, BUSY}, site, 'cat_is_busy returns %s' % sorted(map(str, rets)))
    ctx.sample({'(IDLE, U_FLUSH_IO_WRITE)': sorted(table[('CAT_STATE_IDLE', 'CAT_UNSOLICITED_STATE_FLUSH_IO_WRITE')]),
                '(IDLE, U_IDLE)': sorted(table[('CAT_STATE_IDLE', 'CAT_UNSOLICITED_STATE_IDLE')]),
                '(PARSE_PREFIX, U_IDLE)': sorted(table[('CAT_STATE_PARSE_PREFIX', 'CAT_UNSOLICITED_STATE_IDLE')])})
    ctx.extra['exhaustive'] = True
    ctx.extra['pairs'] = len(table)
    for flag in (0, 1):
        def setup(s, flag=flag):
            s.pnull['MUTEX'] = True
            s.mem[('S', 'hold_state_flag')] = Lin.c(flag)
        outs = m.run('cat_is_hold', [SELF], setup=setup)
        rets = set(_const(rv) for s, rv in outs)
        ctx.check('hold-table', rets == ({HOLD} if flag else {OK}), ctx.site('cat_is_hold', m.fn_line('cat_is_hold')),
                  'cat_is_hold returns %s when hold_state_flag is %d' % (sorted(map(str, rets)), flag))
        # and depends on nothing else
        for s, rv in outs:
            lds = set(e['loc'] for e in trace_events(s.trace) if e['k'] == 'ld') - INIT_ONLY
            ctx.check('hold-table', lds <= {('S', 'hold_state_flag')}, ctx.site('cat_is_hold', m.fn_line('cat_is_hold')),
                      'cat_is_hold depends on %s' % sorted(lds))
    return ctx
