"""Rules about the exported API functions: C16 (mutex bracket), C17 (lockset),
C18 (busy / hold predicates)."""
from .frontend import AnalysisBroken, node_pos
from .interp import trace_paths, trace_events, is_lin, SELF
from .lin import Lin
from .graph import Index

LOCKING_API = ['cat_service', 'cat_is_busy', 'cat_is_hold', 'cat_is_unsolicited_buffer_full',
               'cat_trigger_unsolicited_event', 'cat_trigger_unsolicited_read', 'cat_trigger_unsolicited_test',
               'cat_hold_exit']
# fields set once by cat_init and never written again: reading them needs no lock
INIT_ONLY = {('S', 'desc'), ('S', 'io'), ('S', 'mutex'), ('S', 'commands_num')}


def _const(v):
    return v.const if is_lin(v) and v.is_const() else None


def _relevant(e):
    k = e['k']
    if k in ('lock', 'unlock', 'call_opaque', 'cb', 'io_read', 'io_write', 'evt_step'):
        return True
    if k == 'st':
        return True
    if k == 'ld':
        return e['loc'] not in INIT_ONLY
    return False


def bracket_functions(model):
    idx = Index(model.prog)
    direct = set(idx.functions_with_role('mutex.'))
    exported = set(model.exported_functions())
    # exported functions that lock themselves or through a helper / another exported function
    out = set(f for f in exported if f in direct or (idx.reachable(f) & direct))
    return idx, direct, sorted(out)


def c16(ctx):
    m = ctx.model
    E = m.prog.enums
    idx, direct, bracket = bracket_functions(m)
    exported = m.exported_functions()
    ctx.extra['bracket_functions'] = bracket
    ctx.assume('the mutex interface, when given, has both callbacks set; callbacks do not re-enter the locking API while the lock is held')
    # completeness: the documented locking API locks
    for f in LOCKING_API:
        if f not in m.prog.functions:
            raise AnalysisBroken('anchor vanished: exported function %s' % f)
        ctx.check('completeness', f in bracket, ctx.site(f, m.fn_line(f)),
                  'exported function %s of the locking API never takes the lock' % f)
    # WHO: a helper that calls a mutex callback does nothing else (a pure lock/unlock wrapper); it is inlined below
    for f in sorted(direct - set(exported)):
        others = [r for g, r, _ in idx.role_sites if g == f and not r.startswith('mutex.')]
        stores = [k for k, sites in idx.field_stores.items() if any(fn_ == f for fn_, _ in sites)]
        ctx.check('who-locks', not others and not stores and not (idx.calls.get(f, set()) - direct), ctx.site(f, m.fn_line(f)),
                  'helper %s calls a mutex callback and also does other work' % f)
    # bracket shape, per function and per path; callees are opaque except exported functions and lock wrappers
    allowed = set(exported) | direct
    npaths = 0
    for f in bracket:
        fn = m.prog.functions[f]
        args = [SELF]
        for p in fn['_params'][1:]:
            q = p['type'].get('desugaredQualType', p['type']['qualType'])
            if m.prog.int_type(q) is not None:
                args.append(None)
            else:
                args.append(('obj', 'ARG_' + p['name']))

        def setup(s, args=args, fn=fn):
            for i, p in enumerate(fn['_params'][1:], 1):
                if args[i] is None:
                    args[i] = m.ms.it.fresh(s, 'arg:' + p['name'], p['type'])
                else:
                    s.pnull[args[i][1]] = False
        outs = m.run(f, args, setup=setup, shallow=allowed)
        for s, rv in outs:
            mutex_null = s.pnull.get('MUTEX')
            for seq in trace_paths(s.trace):
                npaths += 1
                rel = [e for e in seq if _relevant(e)]
                site = ctx.site(f, m.fn_line(f))
                if mutex_null is True:
                    ctx.check('bracket', not any(e['k'] in ('lock', 'unlock') for e in rel), site,
                              'mutex callback invoked although no mutex is configured')
                    continue
                if not rel:
                    ctx.check('bracket', True, site, '')
                    continue
                first = rel[0]
                if not ctx.check('bracket', first['k'] == 'lock', ctx.site(first['fn'], first.get('line')),
                                 '%s: %s happens before the lock is taken' % (f, _descr(first))):
                    continue
                if not first['ok']:
                    ok = len(rel) == 1 and _const(rv) == E['CAT_STATUS_ERROR_MUTEX_LOCK']
                    ctx.check('lock-fail', ok, site,
                              '%s: after a failed lock the call must return ERROR_MUTEX_LOCK having done nothing (does: %s, returns %s)'
                              % (f, [_descr(e) for e in rel[1:]], rv))
                    continue
                locks = [i for i, e in enumerate(rel) if e['k'] == 'lock']
                unlocks = [i for i, e in enumerate(rel) if e['k'] == 'unlock']
                ctx.check('no-nesting', len(locks) == 1, site, '%s takes the lock %d times on one path' % (f, len(locks)))
                if not ctx.check('bracket', len(unlocks) == 1, site,
                                 '%s: path with %d unlock calls after a successful lock (returns %s)' % (f, len(unlocks), rv)):
                    continue
                u = unlocks[0]
                ctx.check('bracket', u == len(rel) - 1, ctx.site(rel[-1]['fn'], rel[-1].get('line')),
                          '%s: %s happens after the lock was released' % (f, _descr(rel[-1])))
                if not rel[u]['ok']:
                    ctx.check('unlock-fail', _const(rv) == E['CAT_STATUS_ERROR_MUTEX_UNLOCK'], site,
                              '%s: a failed unlock must be reported as ERROR_MUTEX_UNLOCK (returns %s)' % (f, rv))
                # no callee inside the locked region may lock again
                for e in rel[1:u]:
                    if e['k'] == 'call_opaque':
                        reach = idx.reachable(e['name']) | {e['name']}
                        ctx.check('no-nesting', not (reach & (direct | set(bracket))), ctx.site(e['fn'], e.get('line')),
                                  '%s calls %s with the lock held, which can lock again' % (f, e['name']))
        if len(ctx.samples) < 8:
            ctx.sample({'function': f, 'paths': len(outs)})
    ctx.extra['bracket_paths'] = npaths
    # everything else that is exported is an observer (store-free, callback-free) or cat_init
    for f in exported:
        if f in bracket or f == 'cat_init':
            continue
        fn = m.prog.functions[f]
        args = [SELF]
        for p in fn['_params'][1:]:
            q = p['type'].get('desugaredQualType', p['type']['qualType'])
            args.append(None if m.prog.int_type(q) is not None else ('obj', 'ARG_' + p['name']))

        def setup(s, args=args, fn=fn):
            for i, p in enumerate(fn['_params'][1:], 1):
                if args[i] is None:
                    args[i] = m.ms.it.fresh(s, 'arg:' + p['name'], p['type'])
                elif 'char' in p['type']['qualType']:
                    args[i] = ('mem', ('dstr', 'ARG_' + p['name']), Lin.c(0))
                    s.pnull['ARG_' + p['name']] = False
                else:
                    s.pnull[args[i][1]] = False
        try:
            outs = m.run(f, args, setup=setup)
        except AnalysisBroken as ex:
            raise
        bad = []
        for s, rv in outs:
            for e in trace_events(s.trace):
                if e['k'] in ('st', 'cb', 'io_read', 'io_write'):
                    bad.append(e)
        ctx.check('inside', not bad, ctx.site(f, m.fn_line(f)),
                  'exported function %s changes parser state or calls back without taking the lock: %s'
                  % (f, sorted(set(_descr(e) for e in bad))[:4]))
    return ctx


def _descr(e):
    k = e['k']
    if k == 'st':
        return 'store to %s' % '.'.join(str(x) for x in e['loc'][1:])
    if k == 'ld':
        return 'load of %s' % '.'.join(str(x) for x in e['loc'][1:])
    if k == 'call_opaque':
        return 'call of %s' % e['name']
    if k == 'cb':
        return 'callback %s' % e['kind']
    return k


def _writes_state(idx, g):
    for h in idx.reachable(g) | {g}:
        for (rec, fld), sites in idx.field_stores.items():
            if rec in ('cat_object', 'cat_unsolicited_fsm', 'cat_unsolicited_cmd') and any(fn_ == h for fn_, _ in sites):
                return True
    return False


def c17(ctx):
    """lockset discipline: every access to mutable parser state by the locking API is inside the lock"""
    m = ctx.model
    idx, direct, bracket = bracket_functions(m)
    exported = set(m.exported_functions())
    ctx.assume('the user-supplied mutex is a correct mutual-exclusion primitive')
    ctx.assume('the two documented lock-free observers and cat_init are not called concurrently with the locking API')
    n_acc = 0
    for f in bracket:
        fn = m.prog.functions[f]
        args = [SELF]
        for p in fn['_params'][1:]:
            q = p['type'].get('desugaredQualType', p['type']['qualType'])
            args.append(None if m.prog.int_type(q) is not None else ('obj', 'ARG_' + p['name']))

        def setup(s, args=args, fn=fn):
            s.pnull['MUTEX'] = False
            for i, p in enumerate(fn['_params'][1:], 1):
                if args[i] is None:
                    args[i] = m.ms.it.fresh(s, 'arg:' + p['name'], p['type'])
                else:
                    s.pnull[args[i][1]] = False
        outs = m.run(f, args, setup=setup, shallow=exported | direct)
        shapes = []     # per path with no failing mutex call: the critical sections as tuples of callee names
        for s, rv in outs:
            for seq in trace_paths(s.trace):
                held = False
                secs, cur, clean = [], None, True
                for e in seq:
                    if e['k'] == 'lock':
                        clean = clean and bool(e['ok'])
                        cur = [] if e['ok'] else None
                    elif e['k'] == 'unlock':
                        clean = clean and bool(e['ok'])
                        if cur is not None:
                            secs.append((tuple(cur), e))
                        cur = None
                    elif e['k'] == 'call_opaque' and cur is not None:
                        cur.append(e['name'])
                if clean:
                    shapes.append(secs)
                for e in seq:
                    if e['k'] == 'lock':
                        # a real (non-recursive) mutex: taking it again blocks the only thread that could release it,
                        # and with it every producer - no trigger is delivered any more
                        ctx.check('no-self-deadlock', not held, ctx.site(e['fn'], e.get('line')), '%s takes the lock while holding it' % f)
                        held = bool(e['ok'])
                    elif e['k'] == 'unlock':
                        held = False
                    elif e['k'] in ('ld', 'st', 'call_opaque', 'cb', 'io_read', 'io_write'):
                        if e['k'] == 'ld' and e['loc'] in INIT_ONLY:
                            continue
                        if e['k'] == 'call_opaque' and held:
                            reach = idx.reachable(e['name']) | {e['name']}
                            ctx.check('no-self-deadlock', not (reach & (direct | set(bracket))), ctx.site(e['fn'], e.get('line')),
                                      '%s calls %s with the lock held, which takes the lock again: with a real mutex the service thread blocks itself and every producer' % (f, e['name']))
                        n_acc += 1
                        ctx.check('lockset', held, ctx.site(e['fn'], e.get('line')),
                                  '%s: %s without holding the lock' % (f, _descr(e)))
                # a real mutex that is still held when the call returns blocks the service thread and every producer
                ctx.check('released', not held, ctx.site(f, m.fn_line(f)), '%s can return (%s) with the lock still held' % (f, rv))
        # check-then-act: a later critical section that changes parser state is entered only on some outcomes of an
        # earlier one (there is a path that stops after the earlier sections): another thread can run in between
        names = [tuple(x[0] for x in secs) for secs in shapes]
        for secs, nm in zip(shapes, names):
            for j in range(1, len(secs)):
                acts = [g for g in secs[j][0] if _writes_state(idx, g)]
                stops = any(other == nm[:j] for other in names)
                ctx.check('atomic', not (acts and stops), ctx.site(secs[j][1]['fn'], secs[j][1].get('line')),
                          '%s decides in one critical section (%s) and acts in a later one (%s): the state can change in between'
                          % (f, ', '.join(nm[j - 1]) or '-', ', '.join(acts)))
    ctx.extra['accesses_checked'] = n_acc
    # the protected fields are written nowhere else: helpers reachable only through the locking API or cat_init
    owners = set(bracket) | {'cat_init'}
    for f in sorted(exported - owners):
        for g in idx.reachable(f) | {f}:
            for (rec, fld), sites in idx.field_stores.items():
                if rec in ('cat_object', 'cat_unsolicited_fsm', 'cat_unsolicited_cmd'):
                    for (fn_, line) in sites:
                        if fn_ == g:
                            ctx.check('lockset', False, ctx.site(fn_, line),
                                      'field %s.%s written on a path from lock-free API function %s' % (rec, fld, f))
    ctx.instance('lockset', 0)
    return ctx


def c18(ctx):
    m = ctx.model
    E = m.prog.enums
    st = m.prog.enum_types['cat_state']['consts']
    us = m.prog.enum_types['cat_unsolicited_state']['consts']
    BUSY, OK, HOLD = E['CAT_STATUS_BUSY'], E['CAT_STATUS_OK'], E['CAT_STATUS_HOLD']
    idle, uidle, uflush = st['CAT_STATE_IDLE'], us['CAT_UNSOLICITED_STATE_IDLE'], us['CAT_UNSOLICITED_STATE_FLUSH_IO_WRITE']
    idx, direct, bracket = bracket_functions(m)
    for f in ('cat_is_busy', 'cat_is_hold'):
        ctx.check('locked', f in bracket, ctx.site(f, m.fn_line(f)), '%s does not take the lock' % f)
    table = {}
    for sname, sv in st.items():
        for uname, uv in us.items():
            def setup(s, sv=sv, uv=uv):
                s.pnull['MUTEX'] = True
                s.mem[('S', 'state')] = Lin.c(sv)
                s.mem[('S', 'unsolicited_fsm', 'state')] = Lin.c(uv)
            outs = m.run('cat_is_busy', [SELF], setup=setup)
            rets = set()
            for s, rv in outs:
                rets.add(_const(rv) if _const(rv) is not None else '?')
            table[(sname, uname)] = rets
            site = ctx.site('cat_is_busy', m.fn_line('cat_is_busy'))
            if sv != idle:
                ctx.check('busy-table', rets == {BUSY}, site,
                          'cat_is_busy can return %s while the command machine is in %s (a line is in progress)' % (sorted(map(str, rets)), sname))
            elif uv == uflush:
                ctx.check('busy-table', rets == {BUSY}, site,
                          'cat_is_busy can return %s while an unsolicited line is being emitted (event state %s)' % (sorted(map(str, rets)), uname))
            elif uv == uidle:
                ctx.check('busy-table', rets == {OK}, site,
                          'cat_is_busy returns %s for a quiescent parser (IDLE/IDLE)' % sorted(map(str, rets)))
            else:
                ctx.check('busy-table', rets <= {OK, BUSY}, site, 'cat_is_busy returns %s' % sorted(map(str, rets)))
    ctx.sample({'(IDLE, U_FLUSH_IO_WRITE)': sorted(table[('CAT_STATE_IDLE', 'CAT_UNSOLICITED_STATE_FLUSH_IO_WRITE')]),
                '(IDLE, U_IDLE)': sorted(table[('CAT_STATE_IDLE', 'CAT_UNSOLICITED_STATE_IDLE')]),
                '(PARSE_PREFIX, U_IDLE)': sorted(table[('CAT_STATE_PARSE_PREFIX', 'CAT_UNSOLICITED_STATE_IDLE')])})
    ctx.extra['exhaustive'] = True
    ctx.extra['pairs'] = len(table)
    for flag in (0, 1):
        def setup(s, flag=flag):
            s.pnull['MUTEX'] = True
            s.mem[('S', 'hold_state_flag')] = Lin.c(flag)
        outs = m.run('cat_is_hold', [SELF], setup=setup)
        rets = set(_const(rv) for s, rv in outs)
        ctx.check('hold-table', rets == ({HOLD} if flag else {OK}), ctx.site('cat_is_hold', m.fn_line('cat_is_hold')),
                  'cat_is_hold returns %s when hold_state_flag is %d' % (sorted(map(str, rets)), flag))
        # and depends on nothing else
        for s, rv in outs:
            lds = set(e['loc'] for e in trace_events(s.trace) if e['k'] == 'ld') - INIT_ONLY
            ctx.check('hold-table', lds <= {('S', 'hold_state_flag')}, ctx.site('cat_is_hold', m.fn_line('cat_is_hold')),
                      'cat_is_hold depends on %s' % sorted(lds))
    # ... and the flag it reports is set exactly while the command machine is parked: in every state
    # a step can start from (after a release request as well) the control state is HOLD only with the flag set
    from .rules_fsm import transitions, cval, short
    ex, ts = transitions(ctx, 'cmd')
    n = 0
    for t in ts:
        if not t.frm.endswith('STATE_HOLD'):
            continue
        n += 1
        flag = t.pre.mem.get(('S', 'hold_state_flag'))
        ok = is_lin(flag) and t.pre.facts.lower(flag) >= 1
        ctx.check('hold-while-parked', ok, t.site(),
                  'the command is still suspended (state HOLD, no result code yet%s) but hold_state_flag may be %s: cat_is_hold reports no hold'
                  % (', after %s' % t.t.get('env') if t.t.get('env', 'none') != 'none' else '', flag))
    if n == 0:
        raise AnalysisBroken('no transition leaves the HOLD state: the hold rules would be vacuous')
    # cat_is_busy is a function of the two control states (table above); "OK means that no line is partially
    # received" therefore needs the machine-level fact that IDLE is only re-entered once the line has been
    # consumed up to its LF and answered: the history analysis of C01, read for this property
    from .core import Ctx
    from .rules_fsm import c01
    sub = Ctx('C01', ctx.model, ctx.tier)
    sub.extra['_separation_checked'] = True
    c01(sub)
    n1 = sum(v for k, v in sub.counts.items() if k in ('C01/ack-after-lf', 'C01/one-ack', 'C01/read-after-lf'))
    ctx.instance('idle-means-line-done', n1)
    if n1 == 0:
        raise AnalysisBroken('the line-history analysis matched nothing')
    for f in sub.findings:
        if f.rule in ('C01/ack-after-lf', 'C01/read-after-lf') or (f.rule == 'C01/one-ack' and 'returns to idle' in f.msg):
            ctx.check('idle-means-line-done', False, f.site,
                      'the command machine can be back in IDLE - where cat_is_busy reports OK - while a line is only partially received: ' + f.msg)
    return ctx


# ------------------------------------------------------------------------------------- C13
RING = ('S', 'unsolicited_fsm')


def _ring_setup(head, tail, count):
    def setup(s):
        s.pnull['MUTEX'] = True
        s.mem[RING + ('unsolicited_cmd_buffer_head',)] = Lin.c(head)
        s.mem[RING + ('unsolicited_cmd_buffer_tail',)] = Lin.c(tail)
        s.mem[RING + ('unsolicited_cmd_buffer_items_count',)] = Lin.c(count)
    return setup


def c13(ctx):
    from .rules_fsm import transitions, ring_models, cval, short
    m0 = ctx.model
    ctx.assume('API bodies are atomic with respect to each other (C16/C17); triggers carry a valid command and kind READ or TEST')
    ctx.assume('delivery order as observed through real threads is C17\'s subject')
    total_triples = 0
    for cap, m in ring_models(ctx):
        E = m.prog.enums
        OK, FULL, BUSY = E['CAT_STATUS_OK'], E['CAT_STATUS_ERROR_BUFFER_FULL'], E['CAT_STATUS_BUSY']
        idx = Index(m.prog)
        # who touches the ring
        ring_fields = [(rec, fld) for (rec, fld) in idx.field_stores if rec == 'cat_unsolicited_fsm' and fld.startswith('unsolicited_cmd_buffer')] + \
                      [(rec, fld) for (rec, fld) in idx.field_stores if rec == 'cat_unsolicited_cmd']
        writers = {}
        for rf in ring_fields:
            for fn, line in idx.field_stores[rf]:
                writers.setdefault(fn, set()).add(rf[1])
        trig = idx.reachable('cat_trigger_unsolicited_event') | {'cat_trigger_unsolicited_event'}
        evt = idx.reachable(m.ms.evt_dispatch) | {m.ms.evt_dispatch}
        init = idx.reachable('cat_init') | {'cat_init'}
        for fn, flds in sorted(writers.items()):
            where = [n for n, s in (('trigger', trig), ('event-machine', evt), ('init', init)) if fn in s]
            ctx.check('who', bool(where), ctx.site(fn, m.fn_line(fn)), 'function %s writes ring fields %s but is reachable neither from the trigger API, the event machine nor cat_init' % (fn, sorted(flds)))
            if 'unsolicited_cmd_buffer_tail' in flds and fn not in init:
                ctx.check('who', fn in trig and fn not in evt, ctx.site(fn, m.fn_line(fn)), 'the producer side of the ring (%s) is reachable from the event machine' % fn)
            if 'unsolicited_cmd_buffer_head' in flds and fn not in init:
                ctx.check('who', fn in evt and fn not in trig, ctx.site(fn, m.fn_line(fn)), 'the consumer side of the ring (%s) is reachable from the trigger API' % fn)
        # exhaustive check of push and pop over every consistent ring state of this capacity
        rd = E['CAT_CMD_TYPE_READ']
        triples = [(h, t, c) for h in range(cap) for c in range(cap + 1) for t in [(h + c) % cap]]
        total_triples += len(triples)
        for (h, t, c) in triples:
            # push
            def setup(s, h=h, t=t, c=c):
                _ring_setup(h, t, c)(s)
                s.pnull['XCMD'] = False
            outs = m.run('cat_trigger_unsolicited_event', [SELF, ('obj', 'XCMD'), Lin.c(rd)], setup=setup)
            site = ctx.site('cat_trigger_unsolicited_event', m.fn_line('cat_trigger_unsolicited_event'))
            ctx.check('ring', len(outs) == 1, site, '[capacity %d] push from (head %d, tail %d, count %d) is not deterministic' % (cap, h, t, c))
            for s, rv in outs:
                sts = [e for e in trace_events(s.trace) if e['k'] == 'st']
                if c == cap:
                    ctx.check('refuse-clean', _const(rv) == FULL and not sts, site,
                              '[capacity %d] a trigger on a full queue must report BUFFER_FULL and leave no trace (returns %s, stores %s)' % (cap, rv, [_descr(e) for e in sts]))
                    continue
                nh = _const(s.mem.get(RING + ('unsolicited_cmd_buffer_head',)))
                nt = _const(s.mem.get(RING + ('unsolicited_cmd_buffer_tail',)))
                nc = _const(s.mem.get(RING + ('unsolicited_cmd_buffer_items_count',)))
                slot_c = s.mem.get(RING + ('unsolicited_cmd_buffer', t, 'cmd'))
                slot_t = _const(s.mem.get(RING + ('unsolicited_cmd_buffer', t, 'type')))
                ok = _const(rv) == OK and nh == h and nt == (t + 1) % cap and nc == c + 1 and slot_c == ('obj', 'XCMD') and slot_t == rd
                others = [e for e in sts if e['loc'][:3] == RING + ('unsolicited_cmd_buffer',) and e['loc'][3] != t]
                ctx.check('ring', ok and not others, site,
                          '[capacity %d] push from (head %d, tail %d, count %d) gives (head %s, tail %s, count %s), slot %d = (%s, %s), returns %s'
                          % (cap, h, t, c, nh, nt, nc, t, slot_c, slot_t, rv))
            # full predicate agrees
            outs = m.run('cat_is_unsolicited_buffer_full', [SELF], setup=_ring_setup(h, t, c))
            rets = set(_const(rv) for s, rv in outs)
            ctx.check('refuse-clean', rets == ({FULL} if c == cap else {OK}), ctx.site('cat_is_unsolicited_buffer_full', m.fn_line('cat_is_unsolicited_buffer_full')),
                      '[capacity %d] cat_is_unsolicited_buffer_full returns %s with %d of %d queued' % (cap, sorted(map(str, rets)), c, cap))
            # pop: one idle step of the event machine
            uidle = m.prog.enum_types['cat_unsolicited_state']['consts']['CAT_UNSOLICITED_STATE_IDLE']

            def setup2(s, h=h, t=t, c=c):
                _ring_setup(h, t, c)(s)
                s.mem[RING + ('state',)] = Lin.c(uidle)
                s.mem[RING + ('cmd',)] = ('null',)
            outs = m.run(m.ms.evt_dispatch, [SELF], setup=setup2)
            site = ctx.site(m.ms.evt_dispatch, m.fn_line(m.ms.evt_dispatch))
            for s, rv in outs:
                evs = trace_events(s.trace)
                nh = _const(s.mem.get(RING + ('unsolicited_cmd_buffer_head',)))
                nt = _const(s.mem.get(RING + ('unsolicited_cmd_buffer_tail',)))
                nc = _const(s.mem.get(RING + ('unsolicited_cmd_buffer_items_count',)))
                slots_read = set(e['loc'][3] for e in evs if e['k'] == 'ld' and e['loc'][:3] == RING + ('unsolicited_cmd_buffer',))
                if c == 0:
                    eff = [e for e in evs if e['k'] in ('st', 'cb', 'wr')]
                    ctx.check('ring', not eff, site, '[capacity %d] an idle step with an empty queue has effects' % cap)
                    continue
                taken = [e for e in evs if e['k'] == 'st' and e['loc'] == RING + ('cmd',) and e['val'] != ('null',)]
                ok = nh == (h + 1) % cap and nt == t and nc == c - 1 and slots_read == {h} and taken and taken[0]['val'] == ('obj', 'EV[%d]' % h)
                ctx.check('ring', ok, site, '[capacity %d] pop from (head %d, tail %d, count %d) gives (head %s, tail %s, count %s), reads slots %s, takes %s'
                          % (cap, h, t, c, nh, nt, nc, sorted(slots_read), taken[0]['val'] if taken else None))
            # observer: which slots does the "is this event buffered" query look at
            def setup3(s, h=h, t=t, c=c):
                _ring_setup(h, t, c)(s)
                s.pnull['XCMD'] = False
                s.mem[RING + ('cmd',)] = ('null',)
            m.ms.it.unroll = cap + 2
            try:
                outs = m.run('cat_is_unsolicited_event_buffered', [SELF, ('obj', 'XCMD'), Lin.c(E['CAT_CMD_TYPE_NONE'])], setup=setup3)
            finally:
                m.ms.it.unroll = 1
            window = [(h + i) % cap for i in range(c)]
            site = ctx.site('cat_is_unsolicited_event_buffered', m.fn_line('cat_is_unsolicited_event_buffered'))
            for s, rv in outs:
                evs = trace_events(s.trace)
                looked = set(e['loc'][3] for e in evs if e['k'] == 'ld' and e['loc'][:3] == RING + ('unsolicited_cmd_buffer',) and e['loc'][-1] == 'cmd')
                cmps = [e for e in evs if e['k'] == 'ptrcmp']
                hit = any(e['eq'] for e in cmps)
                ctx.check('observer', looked <= set(window), site, '[capacity %d] the query inspects slots %s outside the queued window %s' % (cap, sorted(looked), window))
                if _const(rv) == OK:
                    ctx.check('observer', looked == set(window) and not hit, site, '[capacity %d] the query reports "not buffered" after inspecting slots %s of the window %s' % (cap, sorted(looked), window))
                elif _const(rv) == BUSY:
                    ctx.check('observer', hit, site, '[capacity %d] the query reports BUSY without a matching entry' % cap)
                else:
                    ctx.check('observer', False, site, 'the query returns %s' % (rv,))
        # exactly once: the popped pair is installed in the same step and removed only by the reset
        exu, tsu = transitions(ctx, 'evt', m)
        for t in tsu:
            sts = [e for e in t.stores() if e['loc'] == RING + ('cmd',)]
            pops = [e for e in t.stores() if e['loc'] == RING + ('unsolicited_cmd_buffer_items_count',)]
            if not t.frm.endswith('_IDLE'):
                ctx.check('once', not pops, t.site(pops[0] if pops else None), '[capacity %d] an event is taken from the queue while another is being processed (%s)' % (cap, short(t.frm)))
                ctx.check('once', all(e['val'] == ('null',) for e in sts), t.site(sts[0] if sts else None), 'the event in progress is replaced in state %s' % short(t.frm))
                if t.to.endswith('_IDLE'):
                    ctx.check('once', any(e['val'] == ('null',) for e in sts), t.site(), 'the event machine returns to idle from %s without clearing the event in progress' % short(t.frm))
            else:
                if pops:
                    ctx.check('once', any(e['val'] != ('null',) for e in sts) or t.to.endswith('_IDLE'), t.site(pops[0]), 'a popped event is not installed as the event in progress')
        for f in (0, 1):
            outs = m.run('cat_get_processed_command', [SELF, Lin.c(f)])
            want = ('S', 'cmd') if f == 0 else RING + ('cmd',)
            for s, rv in outs:
                lds = [e['loc'] for e in trace_events(s.trace) if e['k'] == 'ld' and e['loc'][-1] == 'cmd']
                ctx.check('observer', lds == [want], ctx.site('cat_get_processed_command', m.fn_line('cat_get_processed_command')),
                          'cat_get_processed_command(%d) reads %s' % (f, lds))
    ctx.extra['ring_states_enumerated'] = total_triples
    ctx.extra['exhaustive'] = True
    return ctx
