"""Environment model of cAT for the abstract interpreter.

What the library does not define itself: the descriptor memory (immutable
during a call, named atoms), the working buffers and their *reference*
capacities (taken from the descriptor contract in cat.h, not from the code's
own accessors), the C library functions used, and the four families of user
callbacks.  Ghost (typestate) bookkeeping for NUL-termination lives here too.
"""
import os
from .lin import Lin, INF
from .frontend import AnalysisBroken, node_pos
from .interp import NULL, TOP, SELF, is_lin, lin_repr, Unsupported

# (array field, count field) pairs of the descriptor structs: the reference capacity table
ARRAY_CAP = {'var': 'var_num', 'cmd': 'cmd_num', 'cmd_group': 'cmd_group_num'}
# pointers that the descriptor contract guarantees to be valid (cat_init asserts them)
NONNULL_SUFFIX = ('.name', '.cmd', '.buf', '.cmd_group', '.data')
EPHEMERAL = ('B@', 'R@', 'T@', 'U:', 'H@')

MIN_CMD_CAP = 6      # property C03: command-buffer capacity >= 6


class CatModel:
    def __init__(self, prog, opts=None):
        self.prog = prog
        self.opts = opts or {}
        self.self_types = {}
        self._index_types()
        self.ring_cap = self._ring_cap()
        self.cb_havoc = True
        self.overrides = {}
        self.opaque = None        # None: inline everything; else the set of functions that may be inlined

    # ------------------------------------------------------------------ types
    def _index_types(self):
        def walk(rec, prefix):
            r = self.prog.records.get(rec)
            if not r:
                return
            for fname, qt, fid in r['fields']:
                loc = prefix + (fname,)
                self.self_types[loc] = qt
                q = qt.replace('const ', '').strip()
                if q.startswith('struct ') and not q.endswith('*') and '[' not in q:
                    walk(q[len('struct '):].strip(), loc)
                if '[' in q and q.startswith('struct '):
                    elem = q[len('struct '):q.index('[')].strip()
                    walk(elem, loc + ('[]',))
        walk('cat_object', ('S',))

    def _ring_cap(self):
        for loc, qt in self.self_types.items():
            if '[' in qt and qt.endswith(']'):
                return int(qt[qt.rindex('[') + 1:-1])
        return None

    def loc_type(self, loc):
        if loc[0] == 'S':
            key = tuple('[]' if (isinstance(x, int) or x == '*') else x for x in loc)
            return self.self_types.get(key)
        if loc[0] == 'L':
            d = self.prog.decl_by_id.get(loc[2])
            if d:
                return d['type'].get('desugaredQualType', d['type']['qualType'])
        return None

    # ------------------------------------------------------- initial self state
    def initial(self, loc, s, it, n):
        """value of a self field that has not been written on this path"""
        qt = self.loc_type(loc)
        if qt is None:
            raise Unsupported('unknown location %r' % (loc,))
        name = 'f:' + '.'.join(str(x) for x in loc[1:])
        if it.prog.int_type(qt) is not None:
            if loc[:3] == ('S', 'unsolicited_fsm', 'unsolicited_cmd_buffer') and loc[-1] == 'type':
                # queued event kinds are READ or TEST (the trigger API's contract)
                en = it.prog.enums
                v = it.fresh(s, name, None, (min(en['CAT_CMD_TYPE_READ'], en['CAT_CMD_TYPE_TEST']), max(en['CAT_CMD_TYPE_READ'], en['CAT_CMD_TYPE_TEST'])))
                for x in range(min(en['CAT_CMD_TYPE_READ'], en['CAT_CMD_TYPE_TEST']) + 1, max(en['CAT_CMD_TYPE_READ'], en['CAT_CMD_TYPE_TEST'])):
                    s.facts.assume_ne(v, x)
                return v
            if loc[:2] == ('S', 'unsolicited_fsm') and len(loc) == 3 and loc[2].startswith('unsolicited_cmd_buffer_'):
                # ring invariant (established by rule C13/ring for every capacity analysed)
                hi = self.ring_cap if loc[2].endswith('items_count') else self.ring_cap - 1
                return it.fresh(s, name, None, (0, hi))
            return it.fresh(s, name, qt)
        q = qt.replace('const ', '').strip()
        if loc == ('S', 'desc'):
            s.pnull['DESC'] = False
            return ('obj', 'DESC')
        if loc == ('S', 'io'):
            s.pnull['IO'] = False
            return ('obj', 'IO')
        if loc == ('S', 'mutex'):
            return ('obj', 'MUTEX')
        if 'struct cat_command' in q and '*' in q:
            if loc[1] != 'unsolicited_fsm':
                return ('obj', 'CMD')
            if len(loc) == 3:
                return ('obj', 'UCMD')
            # a queued event: the trigger API is handed a valid command (asserted by the library)
            nm = 'EV[%s]' % (loc[3],)
            s.pnull[nm] = False
            return ('obj', nm)
        if 'struct cat_variable' in q:
            return ('obj', 'VAR' if loc[1] != 'unsolicited_fsm' else 'UVAR')
        if 'char' in q and '*' in q:
            return ('wbuf', name)      # write_buf with unknown target
        raise Unsupported('no initial value for %r of type %s' % (loc, qt))

    # ----------------------------------------------------- descriptor memory
    def assume_nonnull(self, name):
        if name in ('DESC', 'IO'):
            return True
        if name.endswith(NONNULL_SUFFIX):
            return True
        if name.endswith(']') and ('.cmd_group[' in name or '.cmd[' in name or '.var[' in name):
            return True
        if name.endswith('.var'):
            # descriptor domain: a command with var_num > 0 has a variable array (indexing is checked against var_num)
            return True
        return False

    def region_name(self, region):
        if region[0] == 'BUF':
            return 'DESC.buf'
        if region[0] == 'UBUF':
            return 'DESC.unsolicited_buf'
        if region[0] == 'vdata':
            return region[1] + '.data'
        if region[0] == 'dstr':
            return region[1]
        return None

    def load_imm(self, obj, field, qt, s, it, n):
        name = '%s.%s' % (obj, field)
        s.ev('ldi', n, obj=obj, field=field)
        q = qt.get('desugaredQualType', qt['qualType']) if isinstance(qt, dict) else qt
        q0 = q.replace('const ', '').replace(' const', '').replace('*const', '*').strip()
        if it.prog.int_type(q) is not None:
            en = it.prog.enum_of(q)
            if en is not None:
                vals = en['consts'].values()
                return it.fresh(s, name, None, (min(vals), max(vals)))
            v = it.fresh(s, name, q)
            if field == 'buf_size' and obj == 'DESC':
                s.facts.assume_le(Lin.atom(name).scale(-1), -MIN_CMD_CAP)
            if field in ('cmd_group_num', 'cmd_num'):
                # cat_init's contract: at least one group, at least one command per group
                s.facts.assume_le(Lin.atom(name).scale(-1), -1)
            if field == 'data_size':
                s.facts.assume_le(Lin.atom(name).scale(-1), -1)
            return v
        if '(*)' in q0 or q0.endswith('_handler'):
            rec = it.prog.field_by_id.get(n.get('referencedMemberDecl'), (None,))[0]
            kind = {'cat_io_interface': 'io', 'cat_mutex_interface': 'mutex', 'cat_command': 'cmd',
                    'cat_variable': 'var'}.get(rec)
            if kind is None:
                raise Unsupported('function pointer in unknown record %s' % rec)
            if kind in ('io', 'mutex'):
                s.pnull.setdefault(name, False)      # interface contract: both entries are set
            return ('fn', name, kind + '.' + field)
        if q0 == 'struct cat_command_group **' or q0 == 'struct cat_command_group * *' or q0.count('*') == 2:
            if self.assume_nonnull(name):
                s.pnull.setdefault(name, False)
            return ('parr', name)
        if q0.startswith('struct ') and q0.endswith('*'):
            if self.assume_nonnull(name):
                s.pnull.setdefault(name, False)
            return ('oarr', name)
        if q0 in ('char *',):
            if self.assume_nonnull(name):
                s.pnull.setdefault(name, False)
            return ('mem', ('dstr', name), Lin.c(0))
        if q0 in ('uint8_t *', 'unsigned char *', 'void *'):
            if obj == 'DESC' and field == 'buf':
                s.pnull.setdefault(name, False)
                return ('mem', ('BUF',), Lin.c(0))
            if obj == 'DESC' and field == 'unsolicited_buf':
                return ('mem', ('UBUF',), Lin.c(0))
            if field == 'data':
                s.pnull.setdefault(name, False)
                return ('mem', ('vdata', obj), Lin.c(0))
        raise Unsupported('descriptor field %s of type %s' % (name, q))

    def array_capacity(self, arrname, s, it):
        base, _, field = arrname.rpartition('.')
        cf = ARRAY_CAP.get(field)
        if cf is None:
            return None
        return it.fresh(s, '%s.%s' % (base, cf), 'unsigned long')

    # -------------------------------------------------------------- capacities
    def half(self, s, it):
        a = it.fresh(s, 'shr(DESC.buf_size,1)', None, (0, (1 << 63) - 1))
        return a

    def shared(self, s):
        """is the unsolicited buffer shared with the command buffer (True/False/None)"""
        return s.pnull.get('DESC.unsolicited_buf')

    def region_cap(self, region, s, it):
        """reference capacity (Lin) of a region, or None if the sharing mode is not decided yet"""
        r = region[0]
        if r == 'BUF':
            sh = self.shared(s)
            if sh is None:
                return None
            if sh:
                h = self.half(s, it)
                s.facts.assume_le(h.scale(-1), -MIN_CMD_CAP)
                return h
            bs = it.fresh(s, 'DESC.buf_size', 'unsigned long')
            s.facts.assume_le(bs.scale(-1), -MIN_CMD_CAP)
            return bs
        if r == 'BUFHI':
            return self.half(s, it)
        if r == 'UBUF':
            return it.fresh(s, 'DESC.unsolicited_buf_size', 'unsigned long')
        if r == 'vdata':
            return it.fresh(s, region[1] + '.data_size', 'unsigned long')
        if r == 'lit':
            return Lin.c(len(region[1]) + 1)
        if r == 'dstr':
            return it.fresh(s, 'strlen(%s)' % region[1], None, (0, (1 << 62))).addc(1)
        return None

    def rebase(self, p, s, it, n):
        """&desc->buf[buf_size >> 1] in shared mode is the start of the upper half"""
        if p[1] == ('BUF',):
            off = p[2]
            sg = off.single()
            if sg and sg[0] == 'shr(DESC.buf_size,1)' and sg[1] == 1:
                return ('mem', ('BUFHI',), Lin.c(sg[2]))
        return p

    # ------------------------------------------------------------ element access
    def _fork_shared(self, region, s):
        """make the sharing mode known before an access to the command buffer"""
        if region[0] == 'BUF' and self.shared(s) is None:
            a = s
            b = s.copy()
            a.pnull['DESC.unsolicited_buf'] = True
            b.pnull['DESC.unsolicited_buf'] = False
            return [a, b]
        return [s]

    def access_ok(self, region, off, width, s, it, n, kind):
        """record the bound obligation  0 <= off  and  off + width <= cap(region)"""
        cap = self.region_cap(region, s, it)
        ok = None
        lane = False
        if cap is not None:
            lo = s.facts.lower(off)
            if lo < 0:
                lo = s.facts.lower(off, 2, 0)
            hi_ok = s.facts.le(off.addc(width).sub(cap), 0)
            ok = (lo >= 0) and (hi_ok is True)
            if not ok and lo >= 0 and kind == 'read' and width == 1:
                # reading at or below a NUL that is known to lie inside the capacity
                T = self.nul_index(region, s, it)
                if T is not None and s.facts.le(off.sub(T), 0) is True:
                    ok = True
            if not ok and region[0] == 'BUF':
                ok = lane = self._lane_lemma(off, s, it)
            if not ok and lo >= 0 and hi_ok is False:
                ok = False
        if not ok and os.environ.get('CATSA_OBDBG') and region[0] == 'vdata':
            import sys
            sys.stderr.write('OBDBG line %s off %s cap %s lo %s\n  iv %s\n  ub %s\n' % (node_pos(n)[1], off, cap, lo,
                             {a: v for a, v in s.facts.iv.items() if any(a == t[0] for t in off.terms) or 'data_size' in a or 'access' in a},
                             {k: v for k, v in s.facts.ub.items() if any(a == t[0] for t in off.terms for a, _ in k)}))
        s.ev('ob', n, ob='bound', ok=ok, region=region, off=off, width=width, cap=cap, access=kind, lane=lane)
        return ok

    def _lane_lemma(self, off, s, it):
        """off = i >> 2 with i < commands_num, and commands_num <= 4 * capacity (domain of C03)"""
        sg = off.single()
        if not sg or sg[1] != 1 or sg[2] != 0:
            return False
        a = sg[0]
        if not (a.startswith('shr(') and a.endswith(',2)')):
            return False
        d = s.ghost.get(('def', a))
        if d is None or d[0] != '>>':
            return False
        inner = d[1]
        cn = s.mem.get(('S', 'commands_num'))
        if cn is None:
            cn = self.initial(('S', 'commands_num'), s, it, None)
            s.mem[('S', 'commands_num')] = cn
        return s.facts.le(inner.sub(cn), -1) is True and s.facts.lower(inner) >= 0

    def new_byte(self, s, it, n, region, off, qt):
        f, line = node_pos(n)
        col = (n.get('range', {}).get('begin', {}) or {}).get('col', 0)
        base = 'B@%s:%s' % (line, col)
        i = 0
        while ('%s#%d' % (base, i)) in s.facts.iv:
            i += 1
        name = '%s#%d' % (base, i)
        v = it.fresh(s, name, qt)
        s.prov[name] = (region, off)
        return v

    def load_elem(self, region, off, qt, s, it, n):
        out = []
        for s1 in self._fork_shared(region, s):
            width = self._width(qt, it)
            self.access_ok(region, off, width, s1, it, n, 'read')
            rd_ev = s1.ev('rd', n, region=region, off=off, width=width, itype=it.prog.int_type(qt))
            if region[0] == 'lit' and off.is_const() and 0 <= off.const <= len(region[1]):
                t = region[1]
                c = ord(t[off.const]) if off.const < len(t) else 0
                if c > 127:
                    c -= 256
                out.append((s1, Lin.c(c)))
                continue
            key = ('byte', region, off)
            if key in s1.ghost:
                out.append((s1, s1.ghost[key]))
                continue
            if it.prog.int_type(qt) is None:
                out.append((s1, TOP))
                continue
            T = self.nul_index(region, s1, it) if region[0] != 'dstr' else None
            if T is not None and width == 1 and s1.facts.eq(off.sub(T), 0) is True:
                out.append((s1, Lin.c(0)))
                continue
            v = self.new_byte(s1, it, n, region, off, qt)
            rd_ev['atom'] = v.terms[0][0]
            self.hook_read(region, off, v, s1, it, n)
            out.append((s1, v))
        return out

    def store_elem(self, region, off, qt, v, s, it, n):
        out = []
        for s1 in self._fork_shared(region, s):
            width = self._width(qt, it)
            if region[0] in ('lit', 'dstr'):
                s1.ev('ob', n, ob='const-write', ok=False, region=region)
            self.access_ok(region, off, width, s1, it, n, 'write')
            e = s1.ev('wr', n, region=region, off=off, width=width, val=v, qt=self._q(qt), itype=it.prog.int_type(qt))
            if region[0] == 'vdata':
                # what is known about the owning variable and command when its storage is written
                e['var_facts'] = self.snapshot_obj(region[1], s1)
                e['cmd_facts'] = self.snapshot_obj('CMD', s1)
                if is_lin(v):
                    e['val_range'] = (s1.facts.lower(v, 2), s1.facts.upper(v, 2))
                cap_ = self.region_cap(region, s1, it)
                e['room'] = s1.facts.upper(off.addc(width).sub(cap_), 2)
            self.hook_write(region, off, Lin.c(width), v, s1, it, n)
            if width == 1 and off.is_const() and is_lin(v) and region[0] in ('BUF', 'BUFHI', 'UBUF'):
                s1.ghost[('byte', region, off)] = v
            out.append(s1)
        return out

    def _q(self, qt):
        return qt.get('desugaredQualType', qt.get('qualType')) if isinstance(qt, dict) else qt

    def _width(self, qt, it):
        t = it.prog.int_type(qt)
        if t is None:
            return 1
        return t[0] // 8

    # local arrays ------------------------------------------------------------
    def load_local_array(self, lv, s, it, n):
        _, loc, off, size = lv
        ok = off.is_const() and 0 <= off.const < size
        if not ok:
            ok = s.facts.lower(off) >= 0 and s.facts.upper(off) < size
        s.ev('ob', n, ob='bound', ok=ok, region=('local', loc), off=off, width=1, cap=Lin.c(size), access='read')
        txt = s.ghost.get(('arr', loc))
        if txt is not None and off.is_const() and off.const <= len(txt):
            return [(s, Lin.c(ord(txt[off.const]) if off.const < len(txt) else 0))]
        return [(s, it.fresh(s, 'T@%s' % node_pos(n)[1], 'char'))]

    def store_local_array(self, lv, v, s, it, n):
        _, loc, off, size = lv
        ok = s.facts.lower(off) >= 0 and s.facts.upper(off) < size
        s.ev('ob', n, ob='bound', ok=ok, region=('local', loc), off=off, width=1, cap=Lin.c(size), access='write')
        s.ghost.pop(('arr', loc), None)
        s.ghost.pop(('arrterm', loc), None)
        return [s]

    # ---------------------------------------------------------------- ghost hooks
    def term_key(self, region):
        return ('term', region)

    def hook_write(self, region, off, length, v, s, it, n):
        """NUL-termination typestate of the working buffers:
        ghost[('term', region)] = Lin index of a NUL known to be inside the capacity."""
        if region[0] not in ('BUF', 'BUFHI', 'UBUF'):
            if region[0] == 'vdata':
                s.ghost.pop(('byte', region, off), None)
            return
        for k in [k for k in s.ghost if isinstance(k, tuple) and k[0] == 'byte' and k[1] == region]:
            # a write at a known offset only invalidates what it may overlap
            if off.is_const() and length.is_const() and k[2].is_const() and not (off.const <= k[2].const < off.const + length.const):
                continue
            del s.ghost[k]
        tk = self.term_key(region)
        t = s.ghost.get(tk)
        if is_lin(v) and v.is_const() and v.const == 0 and length.is_const() and length.const == 1:
            cap = self.region_cap(region, s, it)
            if cap is not None and s.facts.le(off.sub(cap), -1) is True and s.facts.lower(off) >= 0:
                # keep the smaller index if both are comparable, else the new one
                if t is not None and s.facts.le(t.sub(off), 0) is True:
                    return
                s.ghost[tk] = off
                return
        if t is None:
            return
        # a non-NUL (or unknown) store kills the terminator unless it lies strictly below it
        end = off.add(length)
        if s.facts.le(end.sub(t), 0) is True:
            return
        del s.ghost[tk]

    def hook_read(self, region, off, v, s, it, n):
        pass

    def nul_index(self, region, s, it):
        """index (Lin) of a NUL known to lie inside region, or None"""
        if region[0] == 'lit':
            t = region[1]
            z = t.find('\0')
            return Lin.c(len(t) if z < 0 else z)
        if region[0] == 'dstr':
            return it.fresh(s, 'strlen(%s)' % region[1], None, (0, 1 << 62))
        return s.ghost.get(self.term_key(region))

    def refined(self, s, form, it):
        # returns False when the refinement contradicts the buffer typestate (path infeasible)
        """scan lemma: a byte read at index i of a buffer with a NUL at index T (i <= T) that turns
        out to be non-zero cannot be the NUL, hence i <= T-1."""
        # snprintf result learnt to be inside [0, size): the output is NUL-terminated at off + result
        for a, _ in form.terms:
            sp = s.ghost.get(('snprintf', a))
            if sp is not None:
                region, off, ln = sp
                ra = Lin.atom(a)
                if s.facts.lower(ra) >= 0 and s.facts.le(ra.sub(ln), -1) is True and region[0] in ('BUF', 'BUFHI', 'UBUF'):
                    cap = self.region_cap(region, s, it)
                    if cap is not None and s.facts.le(off.add(ln).sub(cap), 0) is True:
                        self.set_term(region, off.add(ra), s)
                        del s.ghost[('snprintf', a)]
        if not s.prov:
            return True
        for a, _ in form.terms:
            pv = s.prov.get(a)
            if pv is None:
                continue
            region, off = pv
            if s.facts.eq(Lin.atom(a), 0) is not False:
                continue
            T = self.nul_index(region, s, it)
            if T is None:
                continue
            d = off.sub(T)
            if s.facts.le(d, 0) is True and s.facts.le(d, -1) is not True:
                if not s.facts.assume_le(d, -1):
                    return False      # the byte at the NUL's own index cannot be non-zero
        return True

    def set_term(self, region, idx, s):
        s.ghost[self.term_key(region)] = idx

    def join_ghost(self, ghosts, states, res):
        g0 = ghosts[0]
        out = {}
        for k, v in g0.items():
            if is_lin(v):
                continue
            if all(g.get(k) == v for g in ghosts):
                out[k] = v
            elif False and isinstance(k, tuple) and k[0] == 'term' and all(k in g for g in ghosts):
                # terminator index differs: is it the value of a joined location? keep if it equals
                # the same location's value in every state (e.g. the cursor itself)
                locs = None
                for g, st in zip(ghosts, states):
                    here = set(loc for loc, val in st.mem.items() if is_lin(val) and val == g[k])
                    locs = here if locs is None else (locs & here)
                if locs:
                    loc = sorted(locs, key=repr)[0]
                    if loc in res.mem and is_lin(res.mem[loc]):
                        out[k] = res.mem[loc]
        return out

    def on_store_field(self, loc, v, s, it, n, e=None):
        # a variable cursor (self->var, unsolicited_fsm.var) is set to an element of a command's variable
        # table: the element must exist (index < var_num) - the cursor is what the formatters and decoders
        # dereference, under the canonical name VAR / UVAR, from then on
        if isinstance(v, tuple) and v and v[0] in ('oarr', 'oelem'):
            qt = self.loc_type(loc) or ''
            if 'struct cat_variable' in qt and '*' in qt:
                arr, idx = (v[1], Lin.c(0)) if v[0] == 'oarr' else (v[1], v[2])
                cap = self.array_capacity(arr, s, it)
                if cap is not None and is_lin(idx):
                    ok = s.facts.lower(idx, 2, 0) >= 0 and s.facts.le(idx.sub(cap), -1) is True
                    s.ev('ob', n, ob='index', ok=ok, array=arr, index=idx, cap=cap)
        if e is not None and loc[-1] == 'write_size':
            # what is known about the variable being decoded when its reported size is set
            var = s.mem.get(('S', 'var'))
            if isinstance(var, tuple) and var[0] in ('obj', 'oarr', 'oelem'):
                name = var[1] if var[0] == 'obj' else ('%s[0]' % var[1] if var[0] == 'oarr' else '%s[%s]' % (var[1], lin_repr(var[2])))
                e['var_facts'] = self.snapshot_obj(name, s)

    def array_len(self, loc):
        qt = self.loc_type(loc)
        if qt and qt.endswith(']'):
            return int(qt[qt.rindex('[') + 1:-1])
        raise Unsupported('not an array: %r' % (loc,))

    def deref_wbuf(self, pv, s, it, n):
        s.ev('ob', n, ob='bound', ok=None, region=('unknown', pv[1]), off=None, width=1, cap=None, access='read')
        return [(s, ('top',))]

    # ---------------------------------------------------------------- overrides
    def override(self, fname):
        return self.overrides.get(fname)

    def opaque_call(self, it, fn, args, s, n):
        """shallow mode: a callee that is not inlined may do anything to the parser object"""
        s.ev('call_opaque', n, name=fn['name'], args=list(args))
        for k in [k for k in s.mem if k[0] == 'S' and k not in (('S', 'desc'), ('S', 'io'), ('S', 'mutex'))]:
            del s.mem[k]
        s.facts.drop_atoms(lambda a: a.startswith('f:'))
        s.ghost = {}
        rt = fn['type']['qualType'].split('(')[0].strip()
        if rt == 'void':
            return [(s, None)]
        if it.prog.int_type(rt) is not None:
            return [(s, self.fresh_site(s, it, n, 'R@%s' % fn['name'], rt))]
        return [(s, TOP)]

    # flat command index -> (group, command): summaries of the two lookup helpers.  Their bodies
    # are checked against these summaries by the FLATIDX rule (rules/flatidx.py).
    def _flat_ob(self, idx, s, it, n):
        loc = ('S', 'commands_num')
        if loc not in s.mem:
            s.mem[loc] = self.initial(loc, s, it, n)
        cn = s.mem[loc]
        ok = is_lin(cn) and s.facts.lower(idx) >= 0 and s.facts.le(idx.sub(cn), -1) is True
        s.ev('ob', n, ob='index', ok=ok, array='COMMANDS', index=idx, cap=cn)

    def ov_cmd_by_index(self, it, fn, args, s, n):
        idx = args[1]
        self._flat_ob(idx, s, it, n)
        name = 'CMDS[%s]' % lin_repr(idx)
        s.pnull[name] = False
        s.ev('sel', n, index=idx, obj=name, by=fn['name'])
        return [(s, ('obj', name))]

    def ov_disable_by_index(self, it, fn, args, s, n):
        idx = args[1]
        self._flat_ob(idx, s, it, n)
        g = it.fresh(s, 'GRPS[%s].disable' % lin_repr(idx), 'bool')
        c = it.fresh(s, 'CMDS[%s].disable' % lin_repr(idx), 'bool')
        s.ev('sel', n, index=idx, obj='CMDS[%s]' % lin_repr(idx), by=fn['name'])
        outs = []
        t, f = it.truth(g, s)
        if t is not None:
            outs.append((t, Lin.c(1)))
        if f is not None:
            t2, f2 = it.truth(c, f)
            if t2 is not None:
                outs.append((t2, Lin.c(1)))
            if f2 is not None:
                outs.append((f2, Lin.c(0)))
        return outs

    # ------------------------------------------------------------------ library
    def library(self, name, args, s, it, n):
        m = getattr(self, 'lib_' + name, None)
        if m is None:
            raise Unsupported('call to unknown external function %s at line %s' % (name, node_pos(n)[1]))
        return m(args, s, it, n)

    def _strlen_of(self, p, s, it, n):
        """Lin length of the NUL-terminated string p points to (None if unknown)"""
        if not (isinstance(p, tuple)):
            return None
        if p[0] == 'mem':
            reg, off = p[1], p[2]
            if reg[0] == 'lit' and off.is_const():
                t = reg[1]
                z = t.find('\0', off.const)
                return Lin.c((z if z >= 0 else len(t)) - off.const)
            if reg[0] == 'dstr':
                return it.fresh(s, 'strlen(%s)' % reg[1], None, (0, 1 << 62)).sub(off)
        if p[0] in ('arr', 'aptr'):
            loc = p[1]
            txt = s.ghost.get(('arr', loc))
            off = 0 if p[0] == 'arr' else (p[3].const if p[3].is_const() else None)
            if txt is not None and off is not None and off <= len(txt):
                return Lin.c(len(txt) - off)
            bound = s.ghost.get(('arrterm', loc))
            if txt is None and off == 0 and bound is not None:
                # filled by snprintf: NUL-terminated, at most size - 1 characters
                return it.fresh(s, 'T@arrlen%s' % node_pos(n)[1], None, (0, bound))
        return None

    def lib_strlen(self, args, s, it, n):
        p = args[0]
        l = self._strlen_of(p, s, it, n)
        s.ev('lib', n, name='strlen', ptr=p, known=l is not None)
        if l is None:
            s.ev('ob', n, ob='strlen-unterminated', ok=None, ptr=p)
            l = it.fresh(s, 'T@strlen%s' % node_pos(n)[1], 'unsigned long')
        return [(s, l)]

    def _span(self, name, args, s, it, n):
        """strcspn / strspn: reads the string up to its terminator, returns a length in [0, strlen]"""
        p = args[0]
        l = self._strlen_of(p, s, it, n)
        s.ev('lib', n, name=name, ptr=p, known=l is not None)
        if l is None:
            s.ev('ob', n, ob='strlen-unterminated', ok=None, ptr=p)
        r = it.fresh(s, 'T@%s%s' % (name, node_pos(n)[1]), 'unsigned long')
        if l is not None:
            s.facts.assume_le(r.sub(l), 0)
        return [(s, r)]

    def lib_strcspn(self, args, s, it, n):
        return self._span('strcspn', args, s, it, n)

    def lib_strspn(self, args, s, it, n):
        return self._span('strspn', args, s, it, n)

    def _write_block(self, dst, length, s, it, n, what, zero_from=None):
        """obligation + ghost for a block write of `length` bytes at dst"""
        outs = []
        if not isinstance(dst, tuple) or dst[0] not in ('mem', 'arr', 'aptr'):
            s.ev('ob', n, ob='wild-store', ok=False, ptr=dst)
            return [s]
        if dst[0] in ('arr', 'aptr'):
            loc, size = dst[1], dst[2]
            off = Lin.c(0) if dst[0] == 'arr' else dst[3]
            ok = s.facts.lower(off) >= 0 and s.facts.le(off.add(length), size) is True
            s.ev('ob', n, ob='bound', ok=ok, region=('local', loc), off=off, width=length, cap=Lin.c(size), access='write', via=what)
            s.ghost.pop(('arr', loc), None)
            s.ghost.pop(('arrterm', loc), None)
            return [s]
        region, off = dst[1], dst[2]
        for s1 in self._fork_shared(region, s):
            if region[0] in ('lit', 'dstr'):
                s1.ev('ob', n, ob='const-write', ok=False, region=region)
            cap = self.region_cap(region, s1, it)
            ok = None
            if cap is not None:
                ok = s1.facts.lower(off, 2, 0) >= 0 and s1.facts.lower(length, 2, 0) >= 0 and s1.facts.le(off.add(length).sub(cap), 0) is True
            s1.ev('ob', n, ob='bound', ok=ok, region=region, off=off, width=length, cap=cap, access='write', via=what)
            s1.ev('wr', n, region=region, off=off, width=length, val=None, via=what)
            outs.append(s1)
        return outs

    def _read_block(self, src, length, s, it, n, what):
        if not isinstance(src, tuple):
            s.ev('ob', n, ob='wild-read', ok=False, ptr=src)
            return
        if src[0] == 'ref':
            # address of a scalar (e.g. &ch): exactly one element
            ok = length.is_const() and length.const <= 1
            s.ev('ob', n, ob='bound', ok=ok, region=('scalar', src[1]), off=Lin.c(0), width=length, cap=Lin.c(1), access='read', via=what)
            return
        if src[0] in ('arr', 'aptr'):
            size = src[2]
            off = Lin.c(0) if src[0] == 'arr' else src[3]
            ok = s.facts.lower(off) >= 0 and s.facts.le(off.add(length), size) is True
            s.ev('ob', n, ob='bound', ok=ok, region=('local', src[1]), off=off, width=length, cap=Lin.c(size), access='read', via=what)
            return
        if src[0] == 'mem':
            region, off = src[1], src[2]
            cap = self.region_cap(region, s, it)
            ok = None
            if cap is not None:
                ok = s.facts.lower(off, 2, 0) >= 0 and s.facts.le(off.add(length).sub(cap), 0) is True
            s.ev('ob', n, ob='bound', ok=ok, region=region, off=off, width=length, cap=cap, access='read', via=what)
            s.ev('rd', n, region=region, off=off, width=length, via=what)
            return
        s.ev('ob', n, ob='wild-read', ok=False, ptr=src)

    def lib_memcpy(self, args, s, it, n):
        dst, src, ln = args
        self._read_block(src, ln, s, it, n, 'memcpy')
        outs = []
        for s1 in self._write_block(dst, ln, s, it, n, 'memcpy'):
            if dst[0] == 'mem':
                # content: unknown bytes (kills a terminator inside the written range)
                self.hook_write(dst[1], dst[2], ln, None, s1, it, n)
                sv = None
                if isinstance(src, tuple) and src[0] == 'ref':
                    sv = s1.mem.get(src[1])
                txt = self._text(src)
                if txt is None and isinstance(src, tuple) and src[0] in ('arr', 'aptr'):
                    txt = s1.ghost.get(('arr', src[1]))
                if txt is not None and ln.is_const():
                    txt = txt[:ln.const]
                s1.ev('copy', n, dst=dst, src=src, len=ln, srcval=sv, text=txt)
            outs.append((s1, dst))
        return outs

    def lib_memset(self, args, s, it, n):
        dst, val, ln = args
        outs = []
        for s1 in self._write_block(dst, ln, s, it, n, 'memset'):
            if dst[0] == 'mem':
                self.hook_write(dst[1], dst[2], ln, None, s1, it, n)
                s1.ev('fill', n, dst=dst, val=val, len=ln)
            outs.append((s1, dst))
        return outs

    def lib_strcpy(self, args, s, it, n):
        dst, src = args
        l = self._strlen_of(src, s, it, n)
        if l is None:
            s.ev('ob', n, ob='strlen-unterminated', ok=None, ptr=src)
            l = it.fresh(s, 'T@strcpy%s' % node_pos(n)[1], 'unsigned long')
        outs = []
        for s1 in self._write_block(dst, l.addc(1), s, it, n, 'strcpy'):
            if dst[0] in ('arr',) and src[0] == 'mem' and src[1][0] == 'lit' and src[2].is_const():
                t = src[1][1][src[2].const:]
                z = t.find('\0')
                s1.ghost[('arr', dst[1])] = t if z < 0 else t[:z]
            elif dst[0] == 'mem':
                self.hook_write(dst[1], dst[2], l.addc(1), None, s1, it, n)
                if dst[1][0] in ('BUF', 'BUFHI', 'UBUF'):
                    self.set_term(dst[1], dst[2].add(l), s1)
            s1.ev('copy', n, dst=dst, src=src, len=l.addc(1), text=self._text(src))
            outs.append((s1, dst))
        return outs

    def _text(self, src):
        if isinstance(src, tuple) and src[0] == 'mem' and src[1][0] == 'lit' and src[2].is_const():
            return src[1][1][src[2].const:]
        return None

    def lib_strncpy(self, args, s, it, n):
        dst, src, ln = args
        l = self._strlen_of(src, s, it, n)
        outs = []
        for s1 in self._write_block(dst, ln, s, it, n, 'strncpy'):
            if dst[0] == 'mem':
                self.hook_write(dst[1], dst[2], ln, None, s1, it, n)
                # strncpy pads with NULs: terminated iff strlen(src) < n
                if l is not None and s1.facts.le(l.sub(ln), -1) is True and dst[1][0] in ('BUF', 'BUFHI', 'UBUF'):
                    self.set_term(dst[1], dst[2].add(l), s1)
                else:
                    s1.ev('ob', n, ob='strncpy-unterminated', ok=None, dst=dst, len=ln, srclen=l)
            s1.ev('copy', n, dst=dst, src=src, len=ln, text=self._text(src), via='strncpy')
            outs.append((s1, dst))
        return outs

    def lib_snprintf(self, args, s, it, n):
        dst, ln, fmt = args[0], args[1], args[2]
        vals = args[3:]
        ftxt = None
        if isinstance(fmt, tuple) and fmt[0] == 'mem' and fmt[1][0] == 'lit':
            ftxt = fmt[1][1]
        elif isinstance(fmt, tuple) and fmt[0] in ('arr', 'aptr'):
            ftxt = s.ghost.get(('arr', fmt[1]))
        # writes at most ln bytes including the NUL; returns the untruncated length
        ret = self.fresh_site(s, it, n, 'R@snprintf', 'int')
        outs = []
        for s1 in self._write_block(dst, ln, s, it, n, 'snprintf'):
            s1.ev('fmt', n, dst=dst, size=ln, fmt=ftxt, args=vals, ret=ret)
            if dst[0] == 'arr' and ln.is_const() and 1 <= ln.const <= dst[2]:
                s1.ghost[('arrterm', dst[1])] = ln.const - 1
            if dst[0] == 'mem':
                self.hook_write(dst[1], dst[2], ln, None, s1, it, n)
                s1.ghost[('snprintf', ret.single()[0])] = (dst[1], dst[2], ln)
            outs.append((s1, ret))
        return outs

    def lib_strcmp(self, args, s, it, n):
        for p in args:
            if self._strlen_of(p, s, it, n) is None and not (isinstance(p, tuple) and p[0] in ('top', 'obj')):
                pass
        s.ev('lib', n, name='strcmp', a=args[0], b=args[1])
        return [(s, self.fresh_site(s, it, n, 'R@strcmp', 'int'))]

    def lib___assert_fail(self, args, s, it, n):
        s.ev('assert_fail', n)
        return []     # no-return

    def fresh_site(self, s, it, n, prefix, qt, rng=None):
        f, line = node_pos(n)
        col = (n.get('range', {}).get('begin', {}) or {}).get('col', 0)
        base = '%s%s:%s' % (prefix, line, col)
        i = 0
        while ('%s#%d' % (base, i)) in s.facts.iv:
            i += 1
        return it.fresh(s, '%s#%d' % (base, i), qt, rng)

    # ---------------------------------------------------------------- callbacks
    def callback(self, f, args, s, it, n):
        """user callback reached through descriptor / interface function pointer f"""
        name, kind = f[1], f[2]
        m = getattr(self, 'cb_' + kind.replace('.', '_'), None)
        if m is None:
            raise Unsupported('indirect call through unknown role %s at line %s' % (name, node_pos(n)[1]))
        return m(name, args, s, it, n)

    def cb_io_read(self, name, args, s, it, n):
        p = args[0]
        a, b = s, s.copy()
        a.ev('io_read', n, ok=False, dst=p)
        outs = [(a, Lin.c(0))]
        r = self.fresh_site(b, it, n, 'R@ioread', 'int')
        b.facts.assume_ne(r, 0)
        ch = self.fresh_site(b, it, n, 'H@char', 'char')
        b.ev('io_read', n, ok=True, dst=p, ch=ch)
        if isinstance(p, tuple) and p[0] == 'ref':
            if p[1][0] == 'S':
                b.ev('st', n, loc=p[1], val=ch, via='io.read')
            b.mem[p[1]] = ch
        else:
            b.ev('ob', n, ob='wild-store', ok=False, ptr=p)
        outs.append((b, r))
        return outs

    def cb_io_write(self, name, args, s, it, n):
        ch = args[0]
        a, b = s, s.copy()
        src = None
        if is_lin(ch):
            sg = ch.single()
            if sg:
                src = s.prov.get(sg[0])
        a.ev('io_write', n, ok=True, ch=ch, src=src)
        r = self.fresh_site(b, it, n, 'R@iowrite', 'int')
        b.facts.assume_ne(r, 1)
        b.ev('io_write', n, ok=False, ch=ch, src=src)
        return [(a, Lin.c(1)), (b, r)]

    def cb_mutex_lock(self, name, args, s, it, n):
        a, b = s, s.copy()
        a.ev('lock', n, ok=True)
        r = self.fresh_site(b, it, n, 'R@lock', 'int')
        b.facts.assume_ne(r, 0)
        b.ev('lock', n, ok=False)
        return [(a, Lin.c(0)), (b, r)]

    def cb_mutex_unlock(self, name, args, s, it, n):
        a, b = s, s.copy()
        a.ev('unlock', n, ok=True)
        r = self.fresh_site(b, it, n, 'R@unlock', 'int')
        b.facts.assume_ne(r, 0)
        b.ev('unlock', n, ok=False)
        return [(a, Lin.c(0)), (b, r)]

    def _cb_interference(self, s, it, n):
        """what a command/variable handler may do to the parser through the public API"""
        if not self.cb_havoc:
            return
        # may trigger events: the ring changes (its own invariant is C13's business)
        for f in ('unsolicited_cmd_buffer_tail', 'unsolicited_cmd_buffer_head', 'unsolicited_cmd_buffer_items_count'):
            loc = ('S', 'unsolicited_fsm', f)
            hi = self.ring_cap if f.endswith('count') else self.ring_cap - 1
            s.mem[loc] = self.fresh_site(s, it, n, 'H@ring_%s' % f[-5:], 'unsigned long', (0, hi))
        for k in [k for k in s.mem if k[:3] == ('S', 'unsolicited_fsm', 'unsolicited_cmd_buffer')]:
            del s.mem[k]
        # may request hold exit: only effective while the hold flag is set
        hf = s.mem.get(('S', 'hold_state_flag'))
        if hf is None or not (is_lin(hf) and hf.is_const() and hf.const == 0):
            s.mem[('S', 'hold_exit_status')] = self.fresh_site(s, it, n, 'H@holdexit', 'int', (-1, 1))

    def _cmd_cb(self, kind, name, args, s, it, n):
        ret = self.fresh_site(s, it, n, 'R@' + kind, 'int')
        if name.startswith('UCMD') or name.startswith('EV['):
            # an *event* handler returning HOLD has no meaning in cat.h (observation O1): excluded from the domain
            s.facts.assume_ne(ret, it.prog.enums['CAT_RETURN_STATE_HOLD'])
            s.ev('assume', n, what='event-handler-does-not-return-HOLD')
        s.ev('cb', n, kind=kind, fn=name, args=list(args), ret=ret,
             facts=self.snapshot_obj(name.rpartition('.')[0], s))
        # read/test handlers get (cmd, data, &data_size, max_data_size): they may rewrite the buffer and the size
        if kind in ('cmd.read', 'cmd.test') and len(args) == 4:
            buf, psize, cap = args[1], args[2], args[3]
            if isinstance(psize, tuple) and psize[0] == 'ref':
                nv = self.fresh_site(s, it, n, 'H@size', 'unsigned long')
                if is_lin(cap):
                    s.facts.assume_le(nv.sub(cap), 0)
                if psize[1][0] == 'S':
                    s.ev('st', n, loc=psize[1], val=nv, via=kind)
                s.mem[psize[1]] = nv
            if isinstance(buf, tuple) and buf[0] == 'mem':
                # contract: the handler leaves the buffer NUL-terminated inside max_data_size
                t = self.fresh_site(s, it, n, 'H@nul', 'unsigned long')
                if is_lin(cap):
                    s.facts.assume_le(t.sub(cap), -1)
                self.set_term(buf[1], t, s)
        self._cb_interference(s, it, n)
        return [(s, ret)]

    def cb_cmd_write(self, name, args, s, it, n):
        return self._cmd_cb('cmd.write', name, args, s, it, n)

    def cb_cmd_read(self, name, args, s, it, n):
        return self._cmd_cb('cmd.read', name, args, s, it, n)

    def cb_cmd_run(self, name, args, s, it, n):
        return self._cmd_cb('cmd.run', name, args, s, it, n)

    def cb_cmd_test(self, name, args, s, it, n):
        return self._cmd_cb('cmd.test', name, args, s, it, n)

    def cb_var_write(self, name, args, s, it, n):
        ret = self.fresh_site(s, it, n, 'R@var.write', 'int')
        s.ev('cb', n, kind='var.write', fn=name, args=list(args), ret=ret, facts=self.snapshot_obj(name.rpartition('.')[0], s))
        self._cb_interference(s, it, n)
        return [(s, ret)]

    def cb_var_read(self, name, args, s, it, n):
        ret = self.fresh_site(s, it, n, 'R@var.read', 'int')
        s.ev('cb', n, kind='var.read', fn=name, args=list(args), ret=ret, facts=self.snapshot_obj(name.rpartition('.')[0], s))
        self._cb_interference(s, it, n)
        return [(s, ret)]

    def snapshot_obj(self, obj, s):
        """known facts about the descriptor object `obj` at this point of the path"""
        out = {}
        pre = obj + '.'
        for a, (lo, hi) in s.facts.iv.items():
            if a.startswith(pre) and '.' not in a[len(pre):] and '[' not in a[len(pre):]:
                out[a[len(pre):]] = (lo, hi, tuple(sorted(s.facts.ex.get(a, ()))))
        for a, v in s.pnull.items():
            if a.startswith(pre) and '.' not in a[len(pre):] and '[' not in a[len(pre):]:
                out[a[len(pre):] + '?null'] = v
        return out
