"""Front end: the type-checked program of /repo, with the real build's flags.

compile flags  <- cmake -DCMAKE_EXPORT_COMPILE_COMMANDS=ON in a scratch dir
AST            <- clang-14 <flags> -fsyntax-only -Xclang -ast-dump=json
Nothing here interprets the program; it only loads declarations, resolves
source positions (clang omits file/line when unchanged) and indexes the
functions, records, enums and typedefs of every unit under /repo/src.
"""
import hashlib
import json
import os
import shlex
import shutil
import subprocess
import sys
import tempfile

REPO = os.environ.get('CATSA_REPO', '/repo')
VERIF = os.path.dirname(os.path.dirname(os.path.abspath(__file__)))
CACHE = os.environ.get('CATSA_CACHE') or os.path.join(VERIF, '.cache')


class AnalysisBroken(Exception):
    """The analyser cannot give a verdict (exit 2): never a pass, never a violation."""


def _run(cmd, **kw):
    return subprocess.run(cmd, stdout=subprocess.PIPE, stderr=subprocess.PIPE, **kw)


def source_units():
    d = os.path.join(REPO, 'src')
    units = sorted(os.path.join(d, f) for f in os.listdir(d) if f.endswith('.c'))
    if not units:
        raise AnalysisBroken('no C units under %s' % d)
    return units


def build_flags():
    """Flags of the library target for each unit, taken from the real build system."""
    scratch = tempfile.mkdtemp(prefix='catsa-cmake-', dir=os.environ.get('CATSA_SCRATCH', '/var/tmp'))
    try:
        r = _run(['cmake', '-S', REPO, '-B', scratch, '-G', 'Ninja',
                  '-DCMAKE_BUILD_TYPE=RelWithDebInfo', '-DCMAKE_EXPORT_COMPILE_COMMANDS=ON'])
        cc = os.path.join(scratch, 'compile_commands.json')
        if r.returncode != 0 or not os.path.exists(cc):
            raise AnalysisBroken('cmake could not produce a compilation database: ' + r.stderr.decode()[-400:])
        db = json.load(open(cc))
    finally:
        shutil.rmtree(scratch, ignore_errors=True)
    flags = {}
    for e in db:
        f = os.path.realpath(e['file'])
        if os.path.dirname(f) != os.path.realpath(os.path.join(REPO, 'src')):
            continue
        args = shlex.split(e['command'])[1:]
        # the library target is the one compiled with -Dcat_EXPORTS; test targets
        # re-compile cat.c with other ring capacities and are covered by the matrix
        if '-Dcat_EXPORTS' not in args:
            continue
        keep = []
        skip = False
        for a in args:
            if skip:
                skip = False
                continue
            if a in ('-o', '-c'):
                skip = (a == '-o')
                continue
            if a == f or a == e['file'] or a == '-Werror':
                continue
            keep.append(a)
        flags[f] = keep
    for u in source_units():
        if os.path.realpath(u) not in flags:
            raise AnalysisBroken('no compile command for ' + u)
    return flags


def _hash_sources(extra):
    h = hashlib.sha256()
    for root in (os.path.join(REPO, 'src'),):
        for fn in sorted(os.listdir(root)):
            p = os.path.join(root, fn)
            if os.path.isfile(p):
                h.update(fn.encode())
                h.update(open(p, 'rb').read())
    h.update(open(os.path.join(REPO, 'CMakeLists.txt'), 'rb').read())
    h.update(repr(extra).encode())
    return h.hexdigest()[:24]


def _fix_locations(root):
    """clang prints 'file' and 'line' only when they change; carry them forward
    in document order so that every node has a position."""
    cur = {'file': None, 'line': None}

    def fix_loc(l):
        if not isinstance(l, dict):
            return
        if 'spellingLoc' in l or 'expansionLoc' in l:
            for k in ('spellingLoc', 'expansionLoc'):
                if k in l:
                    fix_loc(l[k])
            return
        if not l:
            return
        if 'file' in l:
            cur['file'] = l['file']
        else:
            l['file'] = cur['file']
        if 'line' in l:
            cur['line'] = l['line']
        else:
            l['line'] = cur['line']

    stack = [root]
    # explicit document-order traversal (recursion would be too deep for some chains)
    def visit(n):
        if 'loc' in n:
            fix_loc(n['loc'])
        if 'range' in n:
            fix_loc(n['range'].get('begin'))
            fix_loc(n['range'].get('end'))
        for c in n.get('inner', ()):
            if isinstance(c, dict):
                visit(c)
    sys.setrecursionlimit(20000)
    visit(root)


def node_pos(n):
    """(file, line) of a node using the expansion location for macro bodies."""
    r = n.get('range', {}).get('begin') or n.get('loc') or {}
    if 'expansionLoc' in r:
        r = r['expansionLoc']
    return r.get('file'), r.get('line')


INT_TYPES = {
    '_Bool': (8, False), 'bool': (8, False),
    'char': (8, True), 'signed char': (8, True), 'unsigned char': (8, False),
    'short': (16, True), 'unsigned short': (16, False),
    'int': (32, True), 'unsigned int': (32, False),
    'long': (64, True), 'unsigned long': (64, False),
    'long long': (64, True), 'unsigned long long': (64, False),
}


class Program:
    """All declarations of one configuration (one set of -D flags)."""

    def __init__(self, units_json, config):
        self.config = config
        self.functions = {}       # name -> FunctionDecl node with body
        self.fn_by_id = {}
        self.decl_by_id = {}      # any decl id -> node
        self.records = {}         # name -> {'fields': [(name, qualType, id)], 'node': n}
        self.field_by_id = {}     # field decl id -> (record name, field name, qualType)
        self.enums = {}           # enumerator name -> value
        self.enum_types = {}      # typedef/enum name -> {'signed': bool, 'consts': {name: value}}
        self.enumerator_by_id = {}
        self.typedefs = {}        # name -> desugared qualType
        self.files = set()
        for uj in units_json:
            self._index(uj)

    # -- declarations -----------------------------------------------------
    def _index(self, tu):
        for d in tu.get('inner', ()):
            k = d.get('kind')
            if k == 'TypedefDecl':
                t = d['type']
                self.typedefs[d['name']] = t.get('desugaredQualType', t['qualType'])
                # typedef enum {...} name;
                for c in d.get('inner', ()):
                    otd = c.get('ownedTagDecl')
                    if otd and otd.get('kind') == 'EnumDecl' and otd['id'] in self._anon_enums:
                        self.enum_types[d['name']] = self._anon_enums[otd['id']]
            elif k == 'EnumDecl':
                self._enum(d)
            elif k == 'RecordDecl' and d.get('completeDefinition'):
                fields = []
                for f in d.get('inner', ()):
                    if f.get('kind') == 'FieldDecl':
                        fields.append((f['name'], f['type']['qualType'], f['id']))
                        self.field_by_id[f['id']] = (d.get('name'), f['name'], f['type'])
                        self.decl_by_id[f['id']] = f
                self.records[d.get('name')] = {'fields': fields, 'node': d}
            elif k == 'FunctionDecl':
                self.decl_by_id[d['id']] = d
                body = [c for c in d.get('inner', ()) if c.get('kind') == 'CompoundStmt']
                if body:
                    f, _ = node_pos(d)
                    if f and os.path.realpath(f).startswith(os.path.realpath(os.path.join(REPO, 'src'))):
                        d['_body'] = body[0]
                        d['_params'] = [c for c in d.get('inner', ()) if c.get('kind') == 'ParmVarDecl']
                        self.functions[d['name']] = d
                        self.fn_by_id[d['id']] = d
                        self.files.add(f)
                        prev = d.get('previousDecl')
                        if prev:
                            self.fn_by_id[prev] = d
                else:
                    # declaration only: remember so that a later definition can be linked
                    pass
            elif k == 'VarDecl':
                self.decl_by_id[d['id']] = d
        # link forward declarations to definitions by name
        for d in tu.get('inner', ()):
            if d.get('kind') == 'FunctionDecl' and d['name'] in self.functions:
                self.fn_by_id.setdefault(d['id'], self.functions[d['name']])

    _anon_enums = {}

    def _enum(self, d):
        consts = {}
        nxt = 0
        for c in d.get('inner', ()):
            if c.get('kind') != 'EnumConstantDecl':
                continue
            v = None
            for e in c.get('inner', ()):
                if e.get('kind') == 'ConstantExpr':
                    v = int(e['value'])
            if v is None:
                v = nxt
            consts[c['name']] = v
            self.enums[c['name']] = v
            self.enumerator_by_id[c['id']] = (c['name'], v)
            nxt = v + 1
        info = {'signed': any(v < 0 for v in consts.values()), 'consts': consts}
        if d.get('name'):
            self.enum_types[d['name']] = info
            self.enum_types['enum ' + d['name']] = info
        Program._anon_enums = dict(Program._anon_enums)
        Program._anon_enums[d['id']] = info

    # -- types ------------------------------------------------------------
    def int_type(self, qual):
        """(bits, signed) for an integer/enum/bool type, else None."""
        if isinstance(qual, dict):
            qual = qual.get('desugaredQualType', qual.get('qualType'))
        q = qual.replace('const ', '').replace('volatile ', '').strip()
        if q.endswith(' const'):
            q = q[:-6]
        seen = 0
        while q in self.typedefs and seen < 8 and q not in INT_TYPES:
            nq = self.typedefs[q].replace('const ', '').strip()
            if nq == q:
                break
            q = nq
            seen += 1
        if q in INT_TYPES:
            return INT_TYPES[q]
        if q in self.enum_types:
            return (32, self.enum_types[q]['signed'])
        if q.startswith('enum '):
            return (32, False)
        return None

    def is_pointer(self, qual):
        if isinstance(qual, dict):
            qual = qual.get('desugaredQualType', qual.get('qualType'))
        q = qual.strip()
        return q.endswith('*') or q.endswith('* const') or '(*)' in q or '(*const)' in q

    def enum_of(self, qual):
        if isinstance(qual, dict):
            qual = qual.get('desugaredQualType', qual.get('qualType'))
        q = qual.replace('const ', '').strip()
        return self.enum_types.get(q)


def load_program(defines=(), ndebug=True, quiet=True):
    """Parse every unit under /repo/src with the build's flags (+ extra -D/-U)."""
    os.makedirs(CACHE, exist_ok=True)
    flags = build_flags()
    units = []
    for u in source_units():
        fl = list(flags[os.path.realpath(u)])
        if not ndebug:
            fl = [a for a in fl if a != '-DNDEBUG'] + ['-UNDEBUG']
        fl += list(defines)
        if not any(a.startswith('-std=') for a in fl):
            fl.append('-std=gnu11')
        key = _hash_sources((u, fl))
        cj = os.path.join(CACHE, 'ast-%s.json' % key)
        if not os.path.exists(cj):
            cmd = ['clang-14'] + fl + ['-Wall', '-Wextra', '-fsyntax-only', '-Xclang', '-ast-dump=json', u]
            r = _run(cmd)
            if r.returncode != 0:
                raise AnalysisBroken('unit does not compile: %s\n%s' % (u, r.stderr.decode()[-1500:]))
            tmp = cj + '.%d.tmp' % os.getpid()
            with open(tmp, 'wb') as fh:
                fh.write(r.stdout)
            os.replace(tmp, cj)
            _gc_cache()
        tu = json.load(open(cj))
        _fix_locations(tu)
        units.append(tu)
    return Program(units, {'defines': list(defines), 'ndebug': ndebug})


def _gc_cache(keep=12):
    try:
        fs = sorted((os.path.getmtime(os.path.join(CACHE, f)), f) for f in os.listdir(CACHE) if f.startswith('ast-'))
        for _, f in fs[:-keep]:
            os.remove(os.path.join(CACHE, f))
    except OSError:
        pass
