"""Rules decided on the extracted state machines: C01, C09, C10, C11, C12, C14, C15, C20."""
from .frontend import AnalysisBroken, node_pos
from .interp import trace_paths, trace_events, trace_count, is_lin, SELF, State
from .lin import Lin, INF
from .graph import Index, walk

RESULT_CODES = ('OK', 'ERROR')


def cval(v):
    return v.const if is_lin(v) and v.is_const() else None


def short(n):
    return n.replace('CAT_STATE_', '').replace('CAT_UNSOLICITED_STATE_', 'U_')


class T:
    """convenience view of one transition"""

    def __init__(self, ex, t):
        self.ex = ex
        self.t = t
        self.frm, self.to = t['from'], t['to']
        self.pre, self.post, self.raw = t['pre'], t['post'], t['raw_post']
        self.ret = t['ret']
        self._ev = None

    @property
    def events(self):
        if self._ev is None:
            self._ev = trace_events(self.t['trace'])
        return self._ev

    def has(self, kind, **kw):
        for e in self.events:
            if e['k'] == kind and all(e.get(a) == b for a, b in kw.items()):
                return True
        return False

    def evs(self, kind, **kw):
        return [e for e in self.events if e['k'] == kind and all(e.get(a) == b for a, b in kw.items())]

    def stores(self, own_only=True):
        return [e for e in self.events if e['k'] == 'st' and (not own_only or self.ex.own(e['loc']))]

    def acks(self):
        """result codes loaded into the command buffer on this transition"""
        out = []
        for e in self.events:
            if e['k'] == 'copy' and e.get('text') in RESULT_CODES and isinstance(e.get('dst'), tuple) and e['dst'][0] == 'mem' \
                    and e['dst'][1] == ('BUF',) and cval(e['dst'][2]) == 0:
                out.append(e)
        return out

    def count(self, pred):
        """(min, max) occurrences of events satisfying pred on a single path of this transition"""
        return trace_count(self.t['trace'], pred)

    def is_ack(self, e):
        return e['k'] == 'copy' and e.get('text') in RESULT_CODES and isinstance(e.get('dst'), tuple) and e['dst'][0] == 'mem' \
            and e['dst'][1] == ('BUF',) and cval(e['dst'][2]) == 0

    def field(self, st, *path):
        return st.mem.get(('S',) + path)

    def site(self, e=None):
        if e is not None and e.get('line'):
            return 'src/cat.c:%s:%s' % (e.get('line'), e.get('fn'))
        return 'src/cat.c:%s->%s' % (short(self.frm), short(self.to))


def transitions(ctx, which, model=None):
    ex = (model or ctx.model).machine(which)
    ts = [T(ex, t) for t in ex.transitions]
    if model is None and not ctx.extra.get('_separation_checked'):
        ctx.extra['_separation_checked'] = True
        _separation(ctx)
    return ex, ts


def interference(ctx):
    """stores of one machine into the fields of the other, outside the release request (the helper that
    cat_hold_exit itself runs): list of (which machine, transition, event)"""
    from .graph import Index
    m = ctx.model
    release = Index(m.prog).reachable('cat_hold_exit') | {'cat_hold_exit'}
    out = []
    for which in ('cmd', 'evt'):
        ex = m.machine(which)
        for t in ex.transitions:
            for e in trace_events(t['trace']):
                if e['k'] == 'st' and not ex.own(e['loc']) and e['loc'][0] == 'S':
                    if e.get('via') is None and e.get('fn') in release:
                        continue
                    out.append((which, T(ex, t), e))
    # calls of the environment: every exported function that can change a machine's explored state is
    # interpreted as an action between steps (Explorer.env_actions), so the state-based rules see its
    # effect; the rules that look at the stores of a step do not.  They were written for an interface in
    # which only the release request does that: any other such function leaves them without a verdict.
    for which in ('cmd', 'evt'):
        ex = m.machine(which)
        for f, i, mk, stores in ex.env_actions():
            if f in release:
                continue
            fn = m.prog.functions[f]
            out.append(('api:' + f, _ApiSite(f, node_pos(fn)[1]), {'loc': stores[0], 'line': node_pos(fn)[1], 'fn': f}))
    return out


class _ApiSite:
    def __init__(self, f, line):
        self.f, self.line = f, line

    def site(self, e=None):
        return 'src/cat.c:%s:%s' % (self.line, self.f)


def _separation(ctx):
    """The two machines are analysed separately: a step of one is, for the other, a step that leaves its
    fields alone (apart from the release request, whose code is interpreted as an environment action).
    Every verdict about one machine rests on that.  C11 reports a breach as a violation of its own
    statement; for any other property a breach means that no verdict can be given."""
    bad = interference(ctx)
    ctx.instance('separation', sum(len(ctx.model.machine(w).transitions) for w in ('cmd', 'evt')))
    if ctx.pid == 'C11':
        bad = [b for b in bad if b[0].startswith('api:')]
    if bad:
        which, t, e = bad[0]
        if which.startswith('api:'):
            ctx.extra['_separation_breach'] = ('the exported function %s can store %s (%s): it is interpreted as a call between two steps, but the rules of %s '
                                               'that look at the stores of a step know only the release request; a clean result is not a verdict'
                                               % (which[4:], '.'.join(map(str, e['loc'][1:])), t.site(e), ctx.pid))
            return
        # the property's own rules still run and may report; a clean result, however, is not a verdict (cli)
        ctx.extra['_separation_breach'] = ('the machines are not separable on this tree: the %s machine stores %s of the other machine at %s '
                                           '(reported as a violation by C11); a clean per-machine analysis of %s is not a verdict'
                                           % (which, '.'.join(map(str, e['loc'][1:])), t.site(e), ctx.pid))


def ring_models(ctx):
    """the event machine depends on the configured queue capacity: one model per capacity analysed"""
    from .core import Model
    caps = (1, 2, 3) if ctx.tier == 'quick' else (1, 2, 3, 5, 8)
    out = []
    for c in caps:
        if c == ctx.model.ms.model.ring_cap and not ctx.model.defines:
            out.append((c, ctx.model))
        else:
            out.append((c, Model(defines=('-DCAT_UNSOLICITED_CMD_BUFFER_SIZE=%d' % c,), ndebug=ctx.model.ndebug)))
    ctx.extra['ring_capacities'] = list(caps)
    return out


def silent(t):
    """a transition that consumes no stimulus: no input byte, no handler call, no queued event
    (emitting output is not a stimulus: a machine that only emits for ever is a livelock too)"""
    for e in t.events:
        if e['k'] == 'cb' or (e['k'] == 'io_read' and e['ok']):
            return False
        # taking an event out of the queue consumes a stimulus as well
        if e['k'] == 'st' and e['loc'] == ('S', 'unsolicited_fsm', 'unsolicited_cmd_buffer_items_count'):
            return False
    return True


# ------------------------------------------------------------------------------------- C12
def c12(ctx):
    m = ctx.model
    idx = Index(m.prog)
    ctx.assume('io->read writes *ch only when it reports a byte (contract in cat.h); io callbacks do not call the API')
    readers = sorted(set(f for f, r, _ in idx.role_sites if r == 'io.read'))
    writers = sorted(set(f for f, r, _ in idx.role_sites if r == 'io.write'))
    ctx.extra['io_read_functions'] = readers
    ctx.extra['io_write_functions'] = writers
    for f, r, line in idx.role_sites:
        if r.startswith('?'):
            ctx.check('io-only-there', False, ctx.site(f, line), 'indirect call through an unknown role %s' % r)
    for which in ('cmd', 'evt'):
        ex, ts = transitions(ctx, which)
        pos_loc = ('S', 'position') if which == 'cmd' else ('S', 'unsolicited_fsm', 'position')
        for t in ts:
            reads = t.evs('io_read')
            writes = t.evs('io_write')
            nr = t.count(lambda e: e['k'] == 'io_read')[1]
            nw = t.count(lambda e: e['k'] == 'io_write')[1]
            ctx.check('one-io-per-step', nr <= 1 and nw <= 1, t.site(),
                      '%d reads and %d writes in one step of the %s machine' % (nr, nw, which))
            if which == 'evt':
                ctx.check('io-only-there', not reads, t.site(reads[0] if reads else None), 'the event machine consumes input')
            effects = [e for e in t.events if e['k'] in ('st', 'wr', 'cb') and (e['k'] != 'st' or ex.own(e['loc']))]
            for r in reads:
                if not r['ok']:
                    ctx.check('read-stutter', not effects and t.to == t.frm, t.site(effects[0] if effects else r),
                              'a step whose read found no byte changes state: %s' % _eff(effects))
                    rv = cval(t.ret)
                else:
                    # the consumed byte is stored exactly once (by the read itself, plus the case fold)
                    pass
            for w in writes:
                if not w['ok']:
                    ctx.check('write-stutter', not effects and t.to == t.frm, t.site(effects[0] if effects else w),
                              'a refused output byte is not retried unchanged: %s' % _eff(effects))
                else:
                    sts = [e for e in effects if e['k'] == 'st']
                    ok = len(sts) == 1 and sts[0]['loc'] == pos_loc and len(effects) == 1
                    if ok:
                        old = t.pre.mem.get(pos_loc)
                        ok = is_lin(sts[0]['val']) and is_lin(old) and sts[0]['val'] == old.addc(1)
                    ctx.check('write-advance', ok, t.site(sts[0] if sts else w),
                              'an accepted output byte must advance the cursor by exactly one and do nothing else: %s' % _eff(effects))
                    # the byte handed to io->write is the one under the cursor
                    src = w.get('src')
                    wb = t.pre.mem.get(pos_loc[:-1] + ('write_buf',))
                    good = False
                    if src is not None and isinstance(wb, tuple) and wb[0] == 'mem' and is_lin(t.pre.mem.get(pos_loc)):
                        good = src[0] == wb[1] and src[1] == wb[2].add(t.pre.mem[pos_loc])
                    ctx.check('write-byte', good, t.site(w), 'the emitted byte is not write_buf[position] (source %r)' % (src,))
    ctx.check('io-only-there', len(readers) == 1, ctx.site(readers[0] if readers else '?', m.fn_line(readers[0]) if readers else 0),
              'io->read is called from %s' % readers)
    return ctx


def _eff(effects):
    out = []
    for e in effects[:4]:
        if e['k'] == 'st':
            out.append('store %s' % '.'.join(str(x) for x in e['loc'][1:]))
        elif e['k'] == 'wr':
            out.append('write %s' % (e['region'],))
        else:
            out.append('callback %s' % e.get('kind'))
    return out


# ------------------------------------------------------------------------------------- history bits
def history(ex, ts, init_bits, step):
    """forward may-analysis of history bits over the abstract-state graph.
    bits: dict name -> set of booleans possible at a key.  step(t, bits_before) -> bits_after"""
    val = {}
    idle_keys = [k for k, (s, _) in ex.store.items()]
    by_from = {}
    for t in ts:
        by_from.setdefault(t.t['from_key'], []).append(t)
    work = []
    for k in ex.store:
        if ex.state_name(ex.store[k][0]).endswith('_IDLE'):
            val[k] = {b: set(v) for b, v in init_bits.items()}
            work.append(k)
    while work:
        k = work.pop()
        for t in by_from.get(k, ()):
            after = step(t, val[k])
            kk = t.t['to_key']
            cur = val.get(kk)
            if cur is None:
                val[kk] = {b: set(v) for b, v in after.items()}
                work.append(kk)
            else:
                ch = False
                for b, v in after.items():
                    if not v <= cur[b]:
                        cur[b] |= v
                        ch = True
                if ch:
                    work.append(kk)
    return val


def consumed_char(t):
    """None if the step consumed no byte, else ('const', c) or ('not', set of byte values excluded)"""
    for e in t.events:
        if e['k'] == 'io_read' and e['ok']:
            v = t.raw.mem.get(('S', 'current_char'))
            if not is_lin(v):
                return ('not', set())
            f = t.raw.facts
            lo, hi = f.lower(v), f.upper(v)
            if lo == hi:
                return ('const', lo)
            if hi - lo <= 8:
                vals = set(c for c in range(lo, hi + 1) if f.eq(v, c) is not False)
                if len(vals) == 1:
                    return ('const', min(vals))
                return ('set', vals)
            ex = set(c for c in (10, 13) if f.eq(v, c) is False)
            return ('not', ex)
    return None


def _blank(c):
    if c[0] == 'const':
        return c[1] in (10, 13)
    if c[0] == 'set':
        return c[1] <= {10, 13}
    return False


# ------------------------------------------------------------------------------------- C01
def c01(ctx):
    ex, ts = transitions(ctx, 'cmd')
    ctx.assume('handlers eventually return a terminal code (the property\'s own quantifier)')
    ctx.assume('an event handler does not return HOLD (no meaning in cat.h; observation O1 in DESIGN.md)')

    def step(t, b):
        out = {k: set(v) for k, v in b.items()}
        c = consumed_char(t)
        if c is not None:
            if c[0] == 'const':
                out['LF'] = {c[1] == 10}
            elif c[0] == 'set':
                out['LF'] = {True, False} if 10 in c[1] else {False}
            else:
                out['LF'] = {False} if 10 in c[1] else {True, False}
            if t.frm.endswith('_IDLE') and not _blank(c):
                out['LINE'] = {True}
        if t.acks():
            out['ACKED'] = {True}
        if t.to.endswith('_IDLE') and not t.frm.endswith('_IDLE'):
            out['ACKED'] = {False}
            out['LINE'] = {False}
        return out
    hist = history(ex, ts, {'LF': {True}, 'ACKED': {False}, 'LINE': {False}}, step)
    n_ack = 0
    for t in ts:
        before = hist.get(t.t['from_key'])
        if before is None:
            continue          # unreachable from IDLE in the history graph
        after = step(t, before)
        acks = t.acks()
        c = consumed_char(t)
        if acks:
            n_ack += 1
            e = acks[0]
            ctx.check('ack-after-lf', after['LF'] == {True}, t.site(e),
                      'result code %s is loaded in %s although the rest of the line may still be unread (transition %s -> %s)'
                      % (e['text'], e['fn'], short(t.frm), short(t.to)))
            ctx.check('one-ack', before['ACKED'] == {False} and t.count(t.is_ack)[1] == 1, t.site(e),
                      'a second result code for the same line (transition %s -> %s)' % (short(t.frm), short(t.to)))
            ctx.sample({'transition': '%s -> %s' % (short(t.frm), short(t.to)), 'code': e['text'], 'LF': sorted(after['LF'])}) if n_ack <= 6 else None
        if True in before['ACKED']:
            bad = [e for e in t.events if e['k'] in ('io_read', 'cb')]
            ctx.check('no-read-before-reset', not bad, t.site(bad[0] if bad else None),
                      'input is consumed or a handler runs between the result code and the return to idle (%s -> %s)' % (short(t.frm), short(t.to)))
        if c is not None and not t.frm.endswith('_IDLE'):
            ctx.check('read-after-lf', before['LF'] == {False} or before['LINE'] == {False}, t.site(),
                      'a byte after the terminating LF is consumed before the line was answered (%s -> %s)' % (short(t.frm), short(t.to)))
        if t.to.endswith('_IDLE') and not t.frm.endswith('_IDLE'):
            ctx.check('one-ack', before['ACKED'] == {True} or after.get('ACKED') == {True} and False, t.site(),
                      'the machine returns to idle from %s without having answered the line' % short(t.frm))
        if t.frm.endswith('_IDLE') and t.to.endswith('_IDLE') and c is not None:
            ctx.check('blank-lines', _blank(c), t.site(),
                      'idle swallows a non-blank byte without starting a line')
    ctx.extra['ack_transitions'] = n_ack
    return ctx


# ------------------------------------------------------------------------------------- C14
def c14(ctx):
    m = ctx.model
    E = m.prog.enums
    ex, ts = transitions(ctx, 'cmd')
    HOLD = m.prog.enum_types['cat_state']['consts']['CAT_STATE_HOLD']
    ctx.assume('"command handler returns HOLD": HOLD returned by an event handler is outside the statement (O1)')
    for t in ts:
        flag = cval(t.pre.mem.get(('S', 'hold_state_flag')))
        pflag = cval(t.post.mem.get(('S', 'hold_state_flag')))
        if flag != 0:
            reads = t.evs('io_read')
            ctx.check('no-read-in-hold', not reads, t.site(reads[0] if reads else None),
                      'input is consumed while the command is held (%s -> %s)' % (short(t.frm), short(t.to)))
            acks = t.acks()
            if acks and not t.frm.endswith('_HOLD'):
                ctx.check('release-once', pflag == 0 and False, t.site(acks[0]),
                          'a result code is produced during a hold outside the release step (%s)' % short(t.frm))
        if t.frm.endswith('STATE_HOLD') and flag == 1:
            hes = t.raw.mem.get(('S', 'hold_exit_status'))
            lo, hi = (t.raw.facts.lower(hes), t.raw.facts.upper(hes)) if is_lin(hes) else (-INF, INF)
            hes_pre = t.pre.mem.get(('S', 'hold_exit_status'))
            # the handler decides on the status it saw: recover it from the path condition on the entry value
            sg = hes_pre.single() if is_lin(hes_pre) and not hes_pre.is_const() else None
            if sg:
                lo, hi = t.raw.facts.iv.get(sg[0], (-INF, INF))
                exs = t.raw.facts.ex.get(sg[0], ())
            else:
                lo = hi = cval(hes_pre)
                exs = ()
            acks = t.acks()
            sts = t.stores()
            if lo == hi == 0:
                ctx.check('release-once', not acks and not sts and t.to == t.frm, t.site(),
                          'the hold state acts although no release was requested')
            elif lo > 0 or (lo == 0 and 0 in exs and hi > 0 and lo >= 0):
                ctx.check('release-once', t.count(t.is_ack) == (1, 1) and all(a['text'] == 'OK' for a in acks) and pflag == 0, t.site(acks[0] if acks else None),
                          'release with a positive status must clear the flag and answer OK once (acks %s, flag %s)' % ([a['text'] for a in acks], pflag))
            elif hi < 0:
                ctx.check('release-once', t.count(t.is_ack) == (1, 1) and all(a['text'] == 'ERROR' for a in acks) and pflag == 0, t.site(acks[0] if acks else None),
                          'release with a negative status must clear the flag and answer ERROR once (acks %s, flag %s)' % ([a['text'] for a in acks], pflag))
            else:
                ctx.check('release-once', not acks, t.site(), 'hold step acknowledges without deciding on the status [%s,%s]' % (lo, hi))
        # entering a hold
        sets = [e for e in t.stores() if e['loc'] == ('S', 'hold_state_flag') and cval(e['val']) == 1]
        if sets:
            ctx.check('enter-clean', cval(t.post.mem.get(('S', 'hold_exit_status'))) == 0 and cval(t.post.mem.get(('S', 'state'))) == HOLD,
                      t.site(sets[0]), 'entering the hold must clear a stale exit status and park the machine in HOLD (status %s, state %s)'
                      % (t.post.mem.get(('S', 'hold_exit_status')), short(t.to)))
            ctx.check('enter-clean', not t.acks(), t.site(sets[0]), 'a result code is produced when the hold is entered')
        if t.to.endswith('_IDLE') and not t.frm.endswith('_IDLE'):
            ctx.check('reset-respects-hold', pflag == 0, t.site(), 'the machine returns to idle while the hold flag is set')
        if flag == 1 and t.frm.endswith('_AFTER_FLUSH_RESET'):
            ctx.check('reset-respects-hold', t.to.endswith('STATE_HOLD'), t.site(), 'a reset during a hold leaves the HOLD state')
    # the release request itself (public function, deep)
    OK = E['CAT_STATUS_OK']
    for flag in (0, 1):
        for status, name in ((OK, 'OK'), (E['CAT_STATUS_ERROR'], 'ERROR')):
            def setup(s, flag=flag):
                s.pnull['MUTEX'] = True
                s.mem[('S', 'hold_state_flag')] = Lin.c(flag)
            outs = m.run('cat_hold_exit', [SELF, Lin.c(status)], setup=setup)
            for s, rv in outs:
                sts = [e for e in trace_events(s.trace) if e['k'] == 'st']
                site = ctx.site('cat_hold_exit', m.fn_line('cat_hold_exit'))
                if flag == 0:
                    ctx.check('spurious', cval(rv) == E['CAT_STATUS_ERROR_NOT_HOLD'] and not sts, site,
                              'a release request outside a hold must return ERROR_NOT_HOLD and change nothing (returns %s, stores %s)' % (rv, _eff(sts)))
                else:
                    want = 1 if status == OK else -1
                    ok = cval(rv) == OK and len(sts) == 1 and sts[0]['loc'] == ('S', 'hold_exit_status') and cval(sts[0]['val']) == want
                    ctx.check('spurious', ok, site, 'a release request during a hold must only record status %d (returns %s, stores %s)' % (want, rv, _eff(sts)))
    # ... and leaves the caller's mutex as it found it (a request that keeps the lock has an effect: nothing runs any more)
    for flag in (0, 1):
        def setup_m(s, flag=flag):
            s.pnull['MUTEX'] = False
            s.mem[('S', 'hold_state_flag')] = Lin.c(flag)
        for s, rv in m.run('cat_hold_exit', [SELF, Lin.c(OK)], setup=setup_m):
            for seq in trace_paths(s.trace, keep=lambda e: e['k'] in ('lock', 'unlock')):
                taken = [e for e in seq if e['k'] == 'lock' and e['ok']]
                given = [e for e in seq if e['k'] == 'unlock']
                ctx.check('spurious', len(taken) == len(given), ctx.site('cat_hold_exit', m.fn_line('cat_hold_exit')),
                          'a release request %s a hold returns with the mutex %s (locks taken %d, unlocks %d)'
                          % ('during' if flag else 'outside', 'still held' if len(taken) > len(given) else 'released twice', len(taken), len(given)))
    # events keep flowing: the event machine never branches on the hold flag except to record a release
    ex2, ts2 = transitions(ctx, 'evt')
    for t in ts2:
        for e in t.evs('ld'):
            if e['loc'] == ('S', 'hold_state_flag'):
                sts = [x for x in t.events if x['k'] == 'st' and x['fn'] == e['fn']]
                ctx.check('events-continue', all(x['loc'] == ('S', 'hold_exit_status') for x in sts) and e['fn'] != None, t.site(e),
                          'the event machine reads the hold flag in %s' % e['fn'])
        # a release recorded by the event machine comes from a handler that asked for it, with that status
        rel = [x for x in t.stores(own_only=False) if x['loc'] == ('S', 'hold_exit_status')]
        if rel:
            cbs = [x for x in t.evs('cb') if x['kind'].startswith('cmd.')]
            HOK, HERR = E['CAT_RETURN_STATE_HOLD_EXIT_OK'], E['CAT_RETURN_STATE_HOLD_EXIT_ERROR']
            for x in rel:
                want = None
                for c in cbs:
                    if t.raw.facts.eq(c['ret'], HOK) is True:
                        want = 1
                    elif t.raw.facts.eq(c['ret'], HERR) is True:
                        want = -1
                ctx.check('release-once', want is not None and cval(x['val']) == want, t.site(x),
                          'the event machine records a release (status %s) on a step whose handler did not return the matching HOLD_EXIT code (handler results %s)'
                          % (x['val'], [str(c['ret']) for c in cbs]))
        # ... and never answers for the held command: the result code and the way out of HOLD belong
        # to the command machine's release step alone
        acks = t.acks()
        ctx.check('release-once', not acks, t.site(acks[0] if acks else None),
                  'the event machine produces a result code (during a hold: before any release, and a second one follows)')
        sts = [x for x in t.stores(own_only=False) if x['loc'] in (('S', 'state'), ('S', 'hold_state_flag'))]
        ctx.check('release-once', not sts, t.site(sts[0] if sts else None),
                  'the event machine moves the command machine (it may be parked in HOLD): stores %s' % _eff(sts))
    return ctx


# ------------------------------------------------------------------------------------- C11
def c11(ctx):
    m = ctx.model
    st = m.prog.enum_types['cat_state']['consts']
    us = m.prog.enum_types['cat_unsolicited_state']['consts']
    FL, UFL = st['CAT_STATE_FLUSH_IO_WRITE'], us['CAT_UNSOLICITED_STATE_FLUSH_IO_WRITE']
    ctx.assume('an event handler does not return HOLD (O1); handlers keep the buffer NUL-terminated inside max_data_size')
    from .graph import Index
    release_fns = Index(m.prog).reachable('cat_hold_exit') | {'cat_hold_exit'}
    for which in ('cmd', 'evt'):
        ex, ts = transitions(ctx, which)
        my_state = ('S', 'state') if which == 'cmd' else ('S', 'unsolicited_fsm', 'state')
        other_state = 'f:unsolicited_fsm.state' if which == 'cmd' else 'f:state'
        myfl, otherfl = (FL, UFL) if which == 'cmd' else (UFL, FL)
        flush_name = 'CAT_STATE_FLUSH_IO_WRITE' if which == 'cmd' else 'CAT_UNSOLICITED_STATE_FLUSH_IO_WRITE'
        wait_name = flush_name + '_WAIT'
        mine = {('BUF',)} if which == 'cmd' else {('BUFHI',), ('UBUF',)}
        base = my_state[:-1]
        for t in ts:
            # who-writes
            for e in t.evs('io_write'):
                ctx.check('who-writes', t.frm == flush_name, t.site(e), 'output byte written outside the flushing state (%s)' % short(t.frm))
            # mutual exclusion: entering the flushing state requires the other machine not to be flushing
            for e in t.stores():
                if e['loc'] == my_state and cval(e['val']) == myfl:
                    notfl = t.raw.facts.eq(Lin.atom(other_state), otherfl) is False
                    ctx.check('mutex', notfl, t.site(e),
                              'the %s machine enters FLUSH_IO_WRITE without knowing that the other machine is not flushing' % which)
            # the two producers never touch each other's buffer or state
            for e in t.events:
                if e['k'] == 'ob' and e['ob'] == 'bound' and isinstance(e.get('region'), tuple) and e['region'][0] in ('BUF', 'BUFHI', 'UBUF'):
                    key_ = (e.get('line'), e.get('fn'))
                    if e['ok'] is not True and key_ not in ctx.extra.setdefault('_extent_sites', set()):
                        ctx.extra['_extent_sites'].add(key_)
                        ctx.check('disjoint-extents', False, t.site(e),
                                  'the %s machine may access %s beyond its own extent (offset %s, %s bytes, extent %s): units of the two producers can overwrite each other'
                                  % (which, e['region'], e.get('off'), e.get('width'), e.get('cap')))
                    elif e['ok'] is True:
                        ctx.instance('disjoint-extents')
                if e['k'] == 'wr' and e['region'][0] in ('BUF', 'BUFHI', 'UBUF'):
                    ctx.check('stable-source', e['region'] in mine, t.site(e),
                              'the %s machine writes into %s' % (which, e['region']))
                if e['k'] == 'st' and not ex.own(e['loc']) and e['loc'][0] == 'S':
                    # (the release request - the helper cat_hold_exit itself runs - is the documented channel
                    # between the machines; what it does is C14's subject)
                    ok = e.get('via') is None and e.get('fn') in release_fns
                    ctx.check('stable-source', ok, t.site(e), 'the %s machine stores %s of the other machine%s'
                              % (which, '.'.join(map(str, e['loc'][1:])), ' (through a pointer handed to the %s handler)' % e['via'] if e.get('via') else ''))
            # apart from the arbitration state (and, for events, the line-ending and hold flags) a machine
            # does not look at the other machine's fields: its units do not depend on the other's progress
            allowed_reads = ({('S', 'unsolicited_fsm', 'state'), ('S', 'unsolicited_fsm', 'unsolicited_cmd_buffer_items_count')} if which == 'cmd' else
                             {('S', 'state'), ('S', 'cr_flag'), ('S', 'hold_state_flag'), ('S', 'hold_exit_status'),
                              ('S', 'desc'), ('S', 'io'), ('S', 'mutex'), ('S', 'commands_num')})
            for e in t.events:
                if e['k'] == 'ld' and not ex.own(e['loc']) and e['loc'] not in allowed_reads and e['loc'][:2] != ('S', 'desc'):
                    if which == 'cmd' and e['loc'] in (('S', 'desc'), ('S', 'io'), ('S', 'mutex')):
                        continue
                    key_ = ('rd', e.get('line'), e['loc'])
                    if key_ in ctx.extra.setdefault('_indep', set()):
                        continue
                    ctx.extra['_indep'].add(key_)
                    ctx.check('independent', False, t.site(e), 'the %s machine reads %s, a field of the other machine' % (which, '.'.join(map(str, e['loc'][1:]))))
            if t.frm in (flush_name, wait_name):
                wr = [e for e in t.events if e['k'] == 'wr' and e['region'][0] in ('BUF', 'BUFHI', 'UBUF')]
                ctx.check('stable-source', not wr, t.site(wr[0] if wr else None), 'the buffer is modified while it is being emitted')
                cbs = t.evs('cb')
                ctx.check('stable-source', not cbs, t.site(cbs[0] if cbs else None), 'a handler runs while a unit is being emitted')
            # unit discipline
            if t.frm == wait_name:
                ctx.check('unit', t.to in (wait_name, flush_name), t.site(), 'the flush-wait state is left towards %s' % short(t.to))
                ctx.check('unit', all(e['loc'] == my_state for e in t.stores()), t.site(), 'flush-wait changes more than the state')
            if t.frm == flush_name:
                ws = cval(t.pre.mem.get(base + ('write_state',)))
                wsa = cval(t.pre.mem.get(base + ('write_state_after',)))
                left = t.to != flush_name
                rd = [e for e in t.events if e['k'] == 'rd' and e.get('width') == 1]
                if left:
                    # leaves only at the NUL of the last stage, towards the continuation chosen when the flush started
                    ok = ws == 2 and cval(t.post.mem.get(my_state)) == wsa and not t.evs('io_write')
                    ctx.check('unit', ok, t.site(), 'the flushing state is left in stage %s towards %s (continuation %s)' % (ws, short(t.to), wsa))
                else:
                    nws = cval(t.post.mem.get(base + ('write_state',)))
                    if nws != ws:
                        ok = nws == (ws or 0) + 1 and cval(t.post.mem.get(base + ('position',))) == 0 and not t.evs('io_write')
                        ctx.check('unit', ok, t.site(), 'stage change %s -> %s must reset the cursor and emit nothing' % (ws, nws))
                        wb = t.post.mem.get(base + ('write_buf',))
                        if nws == 1:
                            ctx.check('unit', isinstance(wb, tuple) and wb[0] == 'mem' and wb[1] in mine and cval(wb[2]) == 0, t.site(),
                                      'the payload stage does not emit this machine\'s own buffer (%r)' % (wb,))
                        elif nws == 2:
                            ctx.check('unit', isinstance(wb, tuple) and wb[0] == 'mem' and wb[1][0] == 'lit', t.site(),
                                      'the trailing stage does not emit the newline (%r)' % (wb,))
    return ctx


# ------------------------------------------------------------------------------------- C15
def c15(ctx):
    m = ctx.model
    E = m.prog.enums
    OK, BUSY = E['CAT_STATUS_OK'], E['CAT_STATUS_BUSY']
    ex, ts = transitions(ctx, 'cmd')
    ctx.assume('handlers return a terminal code eventually; the output eventually accepts bytes (fair schedule)')
    _c15_cmd(ctx, ex, ts)
    for cap, mod in ring_models(ctx):
        exu, tsu = transitions(ctx, 'evt', mod)
        _c15_evt(ctx, mod, exu, tsu, cap)
    _progress(ctx, 'cmd', ex, ts)
    _total(ctx)
    return ctx


def _c15_cmd(ctx, ex, ts):
    m = ctx.model
    E = m.prog.enums
    OK, BUSY = E['CAT_STATUS_OK'], E['CAT_STATUS_BUSY']
    # (a) the command-machine part of an OK return is a reading handler that found no byte and changed nothing
    waits = {}
    for t in ts:
        rv = t.ret
        may_ok = (cval(rv) == OK) or (cval(rv) is None and is_lin(rv) and t.raw.facts.eq(rv, OK) is not False)
        # the command-machine verdict is the value handed to the final merge: recover it from the stutter shape
        stutter = any(e['k'] == 'io_read' and not e['ok'] for e in t.events)
        effects = [e for e in t.events if e['k'] in ('wr', 'cb') or (e['k'] == 'st' and ex.own(e['loc'])) or (e['k'] in ('io_read', 'io_write') and e['ok'])]
        if cval(rv) == OK:
            ctx.check('ok-means-quiescent', stutter and not effects, t.site(),
                      'cat_service returns OK from %s although the step %s' % (short(t.frm), 'made progress: %s' % _eff(effects) if effects else 'did not wait for input'))
        # ... and the other way round: a step that only found the input dry and changed nothing has nothing
        # left to do: it must be able to report OK (with the event machine idle), or a caller polling until OK spins for ever
        # (the verdict of the event machine is folded in afterwards and forks the step: look at the whole group)
        if stutter and not effects and t.to == t.frm:
            g = waits.setdefault((t.t['from_key'], t.t.get('env')), [t, False])
            g[1] = g[1] or may_ok
    for (fk, env), (t, any_ok) in waits.items():
        ctx.check('reaches-ok', any_ok, t.site(),
                  'waiting for input in %s (read refused, nothing changed) cat_service cannot return OK' % short(t.frm))


def _c15_evt(ctx, m, exu, tsu, cap):
    E = m.prog.enums
    OK, BUSY = E['CAT_STATUS_OK'], E['CAT_STATUS_BUSY']
    # (b) the tail of cat_service: OK only if the event machine is idle and its queue is empty
    classes = {}
    for t in tsu:
        cnt = t.raw.mem.get(('S', 'unsolicited_fsm', 'unsolicited_cmd_buffer_items_count'))
        empty = is_lin(cnt) and t.raw.facts.eq(cnt, 0) is True
        key = (cval(t.ret), cval(t.post.mem.get(('S', 'unsolicited_fsm', 'state'))), empty)
        classes.setdefault(key, t)
    idle_u = m.prog.enum_types['cat_unsolicited_state']['consts']['CAT_UNSOLICITED_STATE_IDLE']
    idle_c = m.prog.enum_types['cat_state']['consts']['CAT_STATE_IDLE']
    ms = m.ms
    for (uret, ustate, empty), tu in sorted(classes.items(), key=repr):
        def ov(it, fn, args, s, n, uret=uret, ustate=ustate, empty=empty):
            s.ev('evt_step', n)
            s.mem[('S', 'unsolicited_fsm', 'state')] = Lin.c(ustate) if ustate is not None else it.fresh(s, 'f:unsolicited_fsm.state', 'unsigned int')
            if empty:
                s.mem[('S', 'unsolicited_fsm', 'unsolicited_cmd_buffer_items_count')] = Lin.c(0)
            else:
                s.mem[('S', 'unsolicited_fsm', 'unsolicited_cmd_buffer_items_count')] = it.fresh(s, 'H@count', None, (1, ms.model.ring_cap))
            return [(s, Lin.c(uret) if uret is not None else ms.model.fresh_site(s, it, n, 'R@evt', 'int'))]

        def setup(s):
            s.pnull['MUTEX'] = True
            s.mem[('S', 'state')] = Lin.c(idle_c)
        ms.model.overrides[ms.evt_dispatch] = ov
        try:
            outs = m.run('cat_service', [SELF], setup=setup)
        finally:
            ms.model.overrides.pop(ms.evt_dispatch, None)
        for s, rv in outs:
            if not any(e['k'] == 'io_read' and not e['ok'] for e in trace_events(s.trace)):
                continue
            may_ok = cval(rv) == OK or (cval(rv) is None and is_lin(rv) and s.facts.eq(rv, OK) is not False)
            if may_ok:
                ctx.check('ok-means-quiescent', ustate == idle_u and empty, ctx.site('cat_service', m.fn_line('cat_service')),
                          '[queue capacity %d] cat_service can return OK although the event machine %s' % (cap,
                          ('is in state %s' % short(exu.ms.ustate_names.get(ustate, str(ustate))) if ustate != idle_u else 'still has queued events')))
            else:
                ctx.check('ok-means-quiescent', True, '', '')
            if ustate == idle_u and empty and uret == OK:
                ctx.check('reaches-ok', cval(rv) == OK, ctx.site('cat_service', m.fn_line('cat_service')),
                          'a quiescent parser does not report OK (returns %s)' % rv)
    # the quiescent event step does nothing
    for t in tsu:
        cnt = t.raw.mem.get(('S', 'unsolicited_fsm', 'unsolicited_cmd_buffer_items_count'))
        if t.frm.endswith('_IDLE') and is_lin(cnt) and t.raw.facts.eq(cnt, 0) is True and not t.evs('st', loc=('S', 'unsolicited_fsm', 'unsolicited_cmd_buffer_items_count')):
            eff = [e for e in t.events if e['k'] in ('st', 'wr', 'cb', 'io_write')]
            ctx.check('ok-means-quiescent', not eff and cval(t.ret) == OK, t.site(), 'an idle event machine with an empty queue acts: %s' % _eff(eff))
    # an idle event machine that sees a queued event takes it: leaving it where it is without doing anything else is
    # not a wait for a stimulus - cat_service keeps answering BUSY (queue not empty) and nothing ever changes
    cloc = ('S', 'unsolicited_fsm', 'unsolicited_cmd_buffer_items_count')
    for t in tsu:
        if t.frm.endswith('_IDLE') and t.to.endswith('_IDLE'):
            cnt = t.raw.mem.get(cloc)
            if is_lin(cnt) and not t.evs('st', loc=cloc) and t.raw.facts.eq(cnt, 0) is False:
                eff = [e for e in t.events if e['k'] in ('st', 'wr', 'cb', 'io_write')]
                ctx.check('progress', bool(eff), t.site(),
                          '[queue capacity %d] an idle event machine leaves a queued event where it is and does nothing else: cat_service reports BUSY for ever without progress' % cap)
    # (c) progress: every cycle of silent steps carries a strictly increasing, bounded cursor
    _progress(ctx, 'evt', exu, tsu)


def _is_wait(t):
    """legitimate waiting steps: no byte available, output refused, hold without request, other machine flushing"""
    if t.to != t.frm:
        return False
    own_st = [e for e in t.stores()]
    if own_st or t.has('wr') or t.has('cb'):
        return False
    for e in t.events:
        if e['k'] == 'io_read' and not e['ok']:
            return True
        if e['k'] == 'io_write' and not e['ok']:
            return True
    if t.frm.endswith('_HOLD') or t.frm.endswith('FLUSH_IO_WRITE_WAIT'):
        return True
    if t.frm.endswith('UNSOLICITED_STATE_IDLE'):
        return True       # nothing queued: waits for a trigger
    return False


def _progress(ctx, which, ex, ts):
    sil = [t for t in ts if silent(t) and not _is_wait(t)]
    # graph on abstract-state keys
    adj = {}
    for t in sil:
        adj.setdefault(t.t['from_key'], []).append(t)
    # Tarjan SCC
    index = {}
    low = {}
    onst = set()
    stack = []
    sccs = []
    counter = [0]

    def strong(v):
        work = [(v, 0)]
        index[v] = low[v] = counter[0]
        counter[0] += 1
        stack.append(v)
        onst.add(v)
        while work:
            node, i = work[-1]
            succ = adj.get(node, [])
            if i < len(succ):
                work[-1] = (node, i + 1)
                w = succ[i].t['to_key']
                if w not in index:
                    index[w] = low[w] = counter[0]
                    counter[0] += 1
                    stack.append(w)
                    onst.add(w)
                    work.append((w, 0))
                elif w in onst:
                    low[node] = min(low[node], index[w])
            else:
                work.pop()
                if work:
                    low[work[-1][0]] = min(low[work[-1][0]], low[node])
                if low[node] == index[node]:
                    comp = []
                    while True:
                        w = stack.pop()
                        onst.discard(w)
                        comp.append(w)
                        if w == node:
                            break
                    sccs.append(comp)
    for v in list(adj.keys()):
        if v not in index:
            strong(v)
    n_cyc = 0
    for comp in sccs:
        cs = set(comp)
        inner = [t for k in comp for t in adj.get(k, ()) if t.t['to_key'] in cs]
        if not inner:
            continue
        n_cyc += 1
        names = sorted(set(short(t.frm) for t in inner))
        w = _witness(ex, inner)
        ctx.check('progress', w is not None, 'src/cat.c:cycle:%s' % '/'.join(names),
                  'a cycle of steps that consume no input byte, queued event or handler result has no (lexicographic) strictly increasing cursor: the machine can run for ever without stimulus: %s' % names)
        if w is not None and (tuple(names), tuple(w)) not in ctx.extra.setdefault('_seen_cycles', set()):
            ctx.extra['_seen_cycles'].add((tuple(names), tuple(w)))
            ctx.sample({'silent_cycle': names, 'machine': which, 'ranking': w})
    ctx.extra['silent_cycles_' + which] = n_cyc


def _delta(t, loc):
    """(sign of post - pre) for an integer field on a transition: '+', '0', '-', or None"""
    a, b = t.pre.mem.get(loc), t.raw.mem.get(loc)
    if a is None or b is None:
        return '0' if a is b else None
    if not (is_lin(a) and is_lin(b)):
        return '0' if a == b else None
    d = b.sub(a)
    f = t.raw.facts
    if d.is_const():
        return '+' if d.const > 0 else ('0' if d.const == 0 else '-')
    if f.lower(d, 2, 1) >= 1:
        return '+'
    if f.upper(d, 2, -1) <= -1:
        return '-'
    if f.lower(d, 2, 0) >= 0 and f.upper(d, 2, 0) <= 0:
        return '0'
    if f.lower(d, 2, 0) >= 0:
        return '0+'
    return None


def _witness(ex, inner):
    locs = set()
    for t in inner:
        for k, v in t.pre.mem.items():
            if ex.own(k) and is_lin(v):
                locs.add(k)
    cands = sorted(locs, key=repr)

    def acyclic(ts):
        adj = {}
        for t in ts:
            adj.setdefault(t.t['from_key'], set()).add(t.t['to_key'])
        color = {}

        def dfs(v):
            st = [(v, iter(adj.get(v, ())))]
            color[v] = 1
            while st:
                node, itr = st[-1]
                for w in itr:
                    c = color.get(w, 0)
                    if c == 1:
                        return False
                    if c == 0:
                        color[w] = 1
                        st.append((w, iter(adj.get(w, ()))))
                        break
                else:
                    color[node] = 2
                    st.pop()
            return True
        for v in list(adj):
            if color.get(v, 0) == 0 and not dfs(v):
                return False
        return True
    deltas = {loc: {id(t): _delta(t, loc) for t in inner} for loc in cands}
    remaining = list(inner)
    ranking = []
    for _ in range(8):
        if acyclic(remaining):
            return ranking or ['(acyclic)']
        pick = None
        for a in cands:
            ds = [deltas[a][id(t)] for t in remaining]
            if all(d in ('+', '0') for d in ds) and any(d == '+' for d in ds):
                pick = a
                break
        if pick is None:
            return None
        ranking.append('.'.join(map(str, pick[1:])))
        remaining = [t for t in remaining if deltas[pick][id(t)] != '+']
    return ranking if acyclic(remaining) else None


def _total(ctx):
    m = ctx.model
    ms = m.ms
    for which, enum, loc, entry in (('cmd', 'cat_state', ('S', 'state'), 'cat_service'),
                                    ('evt', 'cat_unsolicited_state', ('S', 'unsolicited_fsm', 'state'), ms.evt_dispatch)):
        for name, val in m.prog.enum_types[enum]['consts'].items():
            def setup(s, val=val):
                s.pnull['MUTEX'] = True
                s.mem[loc] = Lin.c(val)
            cmd_ex, _ = m.machines()
            if which == 'cmd':
                ms.model.overrides[ms.evt_dispatch] = cmd_ex.ov_evt_havoc
            lockers = set(Index(m.prog).functions_with_role('mutex.'))
            try:
                outs = m.run(entry, [SELF], setup=setup, shallow={entry, ms.cmd_dispatch} | lockers)
            finally:
                ms.model.overrides.pop(ms.evt_dispatch, None)
            hit = False
            for s, rv in outs:
                for e in trace_events(s.trace):
                    if e['k'] == 'switch' and cval(e['value']) == val and e['fn'] in (ms.cmd_dispatch, ms.evt_dispatch):
                        if e['label'] == val:
                            hit = True
            ctx.check('total', hit, ctx.site(entry, m.fn_line(entry)), 'state %s has no case in the dispatcher' % name)


# ------------------------------------------------------------------------------------- C20
PER_LINE_EXEMPT = {('S', 'desc'), ('S', 'io'), ('S', 'mutex'), ('S', 'commands_num'), ('S', 'state'),
                   ('S', 'hold_state_flag'), ('S', 'hold_exit_status'), ('S', 'cr_flag'), ('S', 'implicit_write_flag')}


def c20(ctx):
    m = ctx.model
    ex, ts = transitions(ctx, 'cmd')
    ctx.assume('variable values and handler behaviour are part of a line\'s input, as in the statement')
    # "each line is answered on its own" first of all means that the answer is given at the end of that line:
    # an answer before the LF makes the rest of the line a line of its own (the history analysis of C01)
    from .core import Ctx as _Ctx
    sub = _Ctx('C01', ctx.model, ctx.tier)
    sub.extra['_separation_checked'] = True
    c01(sub)
    ctx.instance('own-answer', sum(v for k, v in sub.counts.items() if k in ('C01/ack-after-lf', 'C01/read-after-lf')))
    for f in sub.findings:
        if f.rule in ('C01/ack-after-lf', 'C01/read-after-lf'):
            ctx.check('own-answer', False, f.site, 'a line is not answered as one unit: ' + f.msg)
    # stale-field dataflow from IDLE
    by_from = {}
    for t in ts:
        by_from.setdefault(t.t['from_key'], []).append(t)
    fields = set(k for k in ex.model.self_types if ex.own(k) and len(k) == 2) - PER_LINE_EXEMPT
    ctx.extra['per_line_fields'] = sorted('.'.join(map(str, f[1:])) for f in fields)
    stale = {}
    work = []
    for k, (s, _) in ex.store.items():
        if ex.state_name(s).endswith('_IDLE'):
            stale[k] = set(fields)
            work.append(k)
    rbmw = {}
    reported = set()
    while work:
        k = work.pop()
        for t in by_from.get(k, ()):
            key = id(t)
            if key not in rbmw:
                rbmw[key] = ex._rb_mw(t.t['trace'])
            rb, mw = rbmw[key]
            bad = (rb & stale[k])
            for f in bad:
                if (t.frm, f) in reported:
                    continue
                reported.add((t.frm, f))
                ld = [e for e in t.events if e['k'] == 'ld' and e['loc'] == f]
                ctx.check('fresh', False, t.site(ld[0] if ld else None),
                          'field %s is read in state %s before anything of the current line has defined it' % ('.'.join(map(str, f[1:])), short(t.frm)))
            ctx.check('fresh', True, '', '')
            if t.to.endswith('_IDLE'):
                nxt = set(fields)
            else:
                nxt = stale[k] - mw
            kk = t.t['to_key']
            cur = stale.get(kk)
            if cur is None:
                stale[kk] = set(nxt)
                work.append(kk)
            elif not nxt <= cur:
                cur |= nxt
                work.append(kk)
    # flags carried by value across idle must be false there
    for t in ts:
        if t.to.endswith('_IDLE') and not t.frm.endswith('_IDLE'):
            for f in ('cr_flag', 'implicit_write_flag', 'hold_state_flag'):
                ctx.check('idle-flags', cval(t.post.mem.get(('S', f))) == 0, t.site(),
                          '%s is not cleared when the machine returns to idle from %s' % (f, short(t.frm)))
    # once a line has shown a CR the flag stays set until the line has been answered
    for t in ts:
        for e in t.stores():
            if e['loc'] == ('S', 'cr_flag') and cval(e['val']) == 0:
                ctx.check('cr-sticky', t.to.endswith('_IDLE'), t.site(e),
                          'the CRLF flag is cleared in the middle of a line (%s -> %s): a CR seen earlier in this line is forgotten' % (short(t.frm), short(t.to)))
    # CR handling in the reading states
    for t in ts:
        c = consumed_char(t)
        if c == ('const', 13) or (c is not None and c[0] == 'set' and c[1] == {13}):
            sts = [e for e in t.stores() if e['loc'] != ('S', 'current_char')]
            if t.frm.endswith('_IDLE'):
                ctx.check('cr-siblings', not sts and t.to == t.frm, t.site(), 'idle does not simply skip a CR')
            else:
                ok = t.to == t.frm and len(sts) == 1 and sts[0]['loc'] == ('S', 'cr_flag') and cval(sts[0]['val']) == 1
                ctx.check('cr-siblings', ok, t.site(sts[0] if sts else None),
                          'a CR inside a line must only set the CRLF flag (%s: stores %s, next %s)' % (short(t.frm), _eff(sts), short(t.to)))
    # the newline selector
    sel = _newline_selector(ctx)
    return ctx


def _newline_selector(ctx):
    m = ctx.model
    # every string literal containing CR or LF lives in exactly one function: the selector
    homes = {}
    for name, fn in m.prog.functions.items():
        for x in walk(fn['_body']):
            if x.get('kind') == 'StringLiteral':
                txt = m.ms.it._lit(x)
                if '\n' in txt or '\r' in txt:
                    homes.setdefault(name, []).append((x['value'], node_pos(x)[1]))
    ctx.check('newline', len(homes) == 1, 'src/cat.c', 'newline text is spelled in %s' % sorted(homes))
    if len(homes) != 1:
        return None
    sel = list(homes)[0]
    for flag in (0, 1):
        def setup(s, flag=flag):
            s.mem[('S', 'cr_flag')] = Lin.c(flag)
        outs = m.run(sel, [SELF], setup=setup)
        vals = set()
        for s, rv in outs:
            if isinstance(rv, tuple) and rv[0] == 'mem' and rv[1][0] == 'lit' and cval(rv[2]) is not None:
                vals.add(rv[1][1][cval(rv[2]):])
            else:
                vals.add(repr(rv))
        want = {'\r\n'} if flag else {'\n'}
        ctx.check('newline', vals == want, ctx.site(sel, m.fn_line(sel)), 'with cr_flag=%d the newline is %r' % (flag, sorted(vals)))
    return sel


RULES = {'C01': c01, 'C11': c11, 'C12': c12, 'C14': c14, 'C15': c15, 'C20': c20}


# ------------------------------------------------------------------------------------- C09
def _pinned(facts, name, val):
    f = facts.get(name)
    return f is not None and f[0] == f[1] == val


def c09(ctx):
    m = ctx.model
    ctx.assume('descriptor flags are changed only between command lines (the property\'s quantifier)')
    ctx.assume('flat-index helpers agree with their summaries (rule FLATIDX, checked in this run)')
    flatidx(ctx)
    ex, ts = transitions(ctx, 'cmd')
    exu, tsu = transitions(ctx, 'evt')
    n_null = 0
    for which, tss in (('cmd', ts), ('evt', tsu)):
        for t in tss:
            for e in t.events:
                if e['k'] == 'ob' and e['ob'] == 'null-call':
                    n_null += 1
                    ctx.check('non-null', e['ok'] is True, t.site(e),
                              'handler %s is called without a dominating NULL test (in %s, step %s)' % (e['ptr'][1], e['fn'], short(t.frm)))
    for t in ts:
        for e in t.events:
            # selection of a command by the lookup: only enabled commands of enabled groups
            if e['k'] == 'st' and e['loc'] in (('S', 'cmd'), ('S', 'partial_cntr')) and t.frm.endswith('SEARCH_COMMAND'):
                if e['loc'] == ('S', 'cmd') and not (isinstance(e['val'], tuple) and e['val'][0] == 'obj'):
                    continue
                sel = [x for x in t.events if x['k'] == 'sel']
                ok = False
                for x in sel:
                    nm = x['obj']
                    g = 'GRPS' + nm[len('CMDS'):]
                    if t.raw.facts.eq(Lin.atom(nm + '.disable'), 0) is True and t.raw.facts.eq(Lin.atom(g + '.disable'), 0) is True:
                        ok = True
                ctx.check('disable-gate', ok, t.site(e),
                          'the lookup %s without having established that the command and its group are enabled'
                          % ('selects a command' if e['loc'] == ('S', 'cmd') else 'counts a candidate'))
            # while the typed name is matched, a candidate influences the parser (implicit-write cut) only if enabled
            if e['k'] == 'st' and e['loc'] == ('S', 'implicit_write_flag') and cval(e['val']) == 1:
                idxv = t.pre.mem.get(('S', 'index'))
                nm = 'CMDS[%s]' % (idxv,)
                g = 'GRPS[%s]' % (idxv,)
                ok = t.raw.facts.eq(Lin.atom(nm + '.disable'), 0) is True and t.raw.facts.eq(Lin.atom(g + '.disable'), 0) is True
                ctx.check('disable-gate', ok, t.site(e),
                          'a fully typed implicit-write name cuts the line short without the command and its group being known enabled')
            if e['k'] == 'cb' and e['kind'] in ('cmd.run', 'cmd.read', 'cmd.write', 'var.read', 'var.write'):
                facts = e['facts'] if e['kind'].startswith('cmd.') else None
                if facts is None:
                    # variable callback: the owning command is the machine's current command
                    facts = ex.model.snapshot_obj('CMD', t.raw)
                ctx.check('only-test', _pinned(facts, 'only_test', 0), t.site(e),
                          '%s handler may run for a command marked test-only (step %s)' % (e['kind'], short(t.frm)))
                ctx.check('disable-gate', _pinned(facts, 'disable', 0), t.site(e),
                          '%s handler may run for a disabled command (step %s)' % (e['kind'], short(t.frm)))
            if e['k'] == 'cb' and e['kind'] == 'cmd.test':
                ctx.check('disable-gate', _pinned(e['facts'], 'disable', 0), t.site(e), 'test handler may run for a disabled command')
            if e['k'] == 'wr' and e['region'][0] == 'vdata':
                cf = e.get('cmd_facts', {})
                ctx.check('only-test', _pinned(cf, 'only_test', 0), t.site(e), 'a variable of a test-only command may be written')
                ctx.check('disable-gate', _pinned(cf, 'disable', 0), t.site(e), 'a variable of a disabled command may be written')
        # refusals have no side effect
        if t.frm.endswith('COMMAND_FOUND') or t.frm.endswith('PARSE_COMMAND_ARGS') and consumed_char(t) == ('const', 10):
            acks = t.acks()
            if acks and all(a['text'] == 'ERROR' for a in acks):
                eff = [e for e in t.events if e['k'] == 'cb' or (e['k'] == 'wr' and e['region'][0] == 'vdata')]
                ctx.check('refusal-clean', not eff, t.site(eff[0] if eff else None), 'a refused request has side effects: %s' % _eff(eff))
    ctx.extra['handler_call_sites_checked'] = n_null
    return ctx


def flatidx(ctx):
    """the two helpers that map a flat command index to (group, command) must implement the summaries the
    analysis uses for them: same group walk, element index - base, disable read from that group and element"""
    m = ctx.model
    ms = m.ms
    from .model import CatModel
    from .fsm import Machines
    raw = Machines(m.prog)
    raw.model.overrides.clear()
    shapes = {}
    for role, fname in (('cmd', ms.f_cmd_by_index), ('disable', ms.f_disable_by_index)):
        def setup(s):
            pass
        s = State()
        s.pnull['DESC'] = False
        idx = raw.it.fresh(s, 'arg:index', 'unsigned long')
        cn = raw.it.fresh(s, 'f:commands_num', 'unsigned long')
        s.mem[('S', 'commands_num')] = cn
        s.facts.assume_le(idx.sub(cn), -1)
        outs = raw.it.run_function(fname, s, [SELF, idx])
        rets = []
        site = ctx.site(fname, m.fn_line(fname))
        for st_, rv in outs:
            evs = trace_events(st_.trace)
            for e in evs:
                if e['k'] == 'ob' and e['ob'] in ('index', 'bound', 'null') and e['ok'] is not True:
                    if e['ob'] == 'null':
                        continue
                    ctx.check('flatidx', False, 'src/cat.c:%s:%s' % (e.get('line'), fname),
                              'unproved %s access in %s (%s of %s)' % (e['ob'], fname, e.get('index'), e.get('array')))
            rets.append((st_, rv, evs))
        shapes[role] = rets
        ctx.instance('flatidx', len(outs))
    # what they compute, on every descriptor shape of a small scope (1-3 groups of 1-3 commands, every
    # flat index, every combination of the two flags of the addressed entry against both backgrounds):
    # the bodies are interpreted with the descriptor pinned and loops unrolled, and must return
    # exactly what the summaries stand for - CMDS[i] is the i-th command of the concatenated groups,
    # GRPS[i] the group it belongs to; disabled iff one of their two flags is set
    import itertools
    raw.it.pin_names = True
    raw.it.unroll = 12
    shapes_ = [sz for g in (1, 2, 3) for sz in itertools.product((1, 2, 3), repeat=g)]
    n_lookup = n_dis = 0
    site_c = ctx.site(ms.f_cmd_by_index, m.fn_line(ms.f_cmd_by_index))
    site_d = ctx.site(ms.f_disable_by_index, m.fn_line(ms.f_disable_by_index))
    bad_c = bad_d = 0

    def pinned(sizes):
        s = State()
        s.pnull['DESC'] = False
        s.mem[('S', 'desc')] = ('obj', 'DESC')
        s.mem[('S', 'commands_num')] = Lin.c(sum(sizes))
        s.facts.iv['DESC.cmd_group_num'] = (len(sizes), len(sizes))
        for g, n_ in enumerate(sizes):
            s.facts.iv['DESC.cmd_group[%d].cmd_num' % g] = (n_, n_)
        return s
    for sizes in shapes_:
        flat = [(g, k) for g, n_ in enumerate(sizes) for k in range(n_)]
        for i, (g, k) in enumerate(flat):
            outs = raw.it.run_function(ms.f_cmd_by_index, pinned(sizes), [SELF, Lin.c(i)])
            got = sorted(set(repr(rv) for st_, rv in outs))
            want = repr(('obj', 'DESC.cmd_group[%d].cmd[%d]' % (g, k)))
            n_lookup += 1
            if got != [want] and bad_c < 4:
                bad_c += 1
                ctx.check('flatidx', False, site_c, 'with groups of sizes %s the command lookup maps flat index %d to %s; the %d-th command overall is %s'
                          % (list(sizes), i, got, i, want))
            if len(sizes) > 2 and max(sizes) > 2:
                continue        # the flag combinations are tried on the smaller shapes
            for gf, ef, bg in itertools.product((0, 1), (0, 1), (0, 1)):
                s0 = pinned(sizes)
                for g2, n2 in enumerate(sizes):
                    s0.facts.iv['DESC.cmd_group[%d].disable' % g2] = (gf, gf) if g2 == g else (bg, bg)
                    for k2 in range(n2):
                        s0.facts.iv['DESC.cmd_group[%d].cmd[%d].disable' % (g2, k2)] = (ef, ef) if (g2, k2) == (g, k) else (bg, bg)
                outs = raw.it.run_function(ms.f_disable_by_index, s0, [SELF, Lin.c(i)])
                got = sorted(set(cval(rv) for st_, rv in outs), key=repr)
                n_dis += 1
                if got != [1 if (gf or ef) else 0] and bad_d < 4:
                    bad_d += 1
                    ctx.check('flatidx', False, site_d, 'with groups of sizes %s, flat index %d (group %d, entry %d): group flag %d, entry flag %d, every other flag %d: '
                              'the disable predicate returns %s' % (list(sizes), i, g, k, gf, ef, bg, got))
    ctx.instance('flatidx', n_lookup + n_dis)
    ctx.extra['flatidx_small_scope'] = {'shapes': len(shapes_), 'lookups': n_lookup, 'disable_cases': n_dis}
    if n_lookup == 0 or n_dis == 0:
        raise AnalysisBroken('flat-index helpers: nothing evaluated')


RULES['C09'] = c09


# ------------------------------------------------------------------------------------- C10
CODES = ['ERROR', 'DATA_OK', 'DATA_NEXT', 'NEXT', 'OK', 'HOLD', 'HOLD_EXIT_OK', 'HOLD_EXIT_ERROR', 'PRINT_CMD_LIST_OK']


def _action(t, which, base):
    """abstract action of one loop-state transition, from its effects and its target"""
    st = t.ex.ms.prog.enum_types['cat_state' if which == 'cmd' else 'cat_unsolicited_state']['consts']
    pre = 'CAT_STATE_' if which == 'cmd' else 'CAT_UNSOLICITED_STATE_'
    acks = [a['text'] for a in t.acks()]
    to = t.to[len(pre):]
    wsa = cval(t.post.mem.get(base + ('write_state_after',)))
    wsa_name = {v: k[len(pre):] for k, v in st.items()}.get(wsa)
    own_st = [e for e in t.stores() if e.get('via') is None]
    reformat = any(e['k'] == 'copy' and isinstance(e.get('src'), tuple) and e['src'][0] == 'mem' and e['src'][1][0] == 'dstr'
                   and e['src'][1][1].endswith('CMD.name') and cval(e['dst'][2]) == 0 for e in t.events)
    hold_req = [cval(e['val']) for e in t.events if e['k'] == 'st' and e['loc'] == ('S', 'hold_exit_status')]
    if which == 'cmd':
        if cval(t.post.mem.get(('S', 'hold_state_flag'))) == 1 and cval(t.pre.mem.get(('S', 'hold_state_flag'))) == 0:
            return 'hold' if to == 'HOLD' and not acks else 'hold?'
        if to == 'PRINT_CMD' and not acks:
            # the list starts at the first command in its first sub-step (where disable / only_test are evaluated)
            CT = t.ex.ms.prog.enums
            fresh = (cval(t.post.mem.get(('S', 'cmd_type'))) == CT['CAT_CMD_TYPE_NONE'] and cval(t.post.mem.get(('S', 'index'))) == 0
                     and cval(t.post.mem.get(('S', 'length'))) == 0)
            return 'list' if fresh else 'list-from-the-middle'
        if reformat:
            return 'reformat'
        if acks:
            if to == 'FLUSH_IO_WRITE_WAIT' and wsa_name == 'AFTER_FLUSH_RESET' and len(set(acks)) == 1:
                return 'fin_ok' if acks[0] == 'OK' else 'fin_err'
            return 'ack?'
        if to == 'FLUSH_IO_WRITE_WAIT':
            ws = cval(t.post.mem.get(base + ('write_state',)))
            return 'flush>%s' % wsa_name if ws == 0 else 'rawflush>%s' % wsa_name
        if t.to == t.frm and not own_st:
            return 'stay'
        return 'other:%s' % to
    else:
        req = ''
        if hold_req:
            req = '+release(%s)' % ('OK' if hold_req[0] == 1 else 'ERR')
        if acks:
            return 'ack?'
        if reformat:
            return 'reformat' + req
        if to == 'IDLE':
            return 'fin' + req
        if to == 'FLUSH_IO_WRITE_WAIT':
            return 'flush>%s' % wsa_name + req
        if t.to == t.frm and not own_st:
            return 'stay' + req
        return 'other:%s' % to + req


def _ref_table(which, kind):
    """reference: handler return code -> allowed actions (None = the property and cat.h are silent)"""
    if which == 'cmd':
        if kind in ('cmd.write', 'cmd.run'):
            tab = {'OK': {'fin_ok'}, 'DATA_OK': {'fin_ok'}, 'DATA_NEXT': {'stay'}, 'NEXT': {'stay'}, 'HOLD': {'hold'},
                   'HOLD_EXIT_OK': {'fin_err'}, 'HOLD_EXIT_ERROR': {'fin_err'}, 'PRINT_CMD_LIST_OK': {'fin_err'},
                   'ERROR': {'fin_err'}, 'other': {'fin_err'}}
            if kind == 'cmd.run':
                tab['PRINT_CMD_LIST_OK'] = {'list'}
            return tab
        rt = 'READ' if kind == 'cmd.read' else 'TEST'
        tab = {'OK': {'fin_ok'}, 'DATA_OK': {'flush>AFTER_FLUSH_OK'}, 'DATA_NEXT': {'flush>AFTER_FLUSH_FORMAT_%s_ARGS' % rt},
               'NEXT': {'reformat'}, 'HOLD': {'hold'}, 'HOLD_EXIT_OK': None, 'HOLD_EXIT_ERROR': None,
               'PRINT_CMD_LIST_OK': {'fin_err'} if rt == 'READ' else {'list'}, 'ERROR': {'fin_err'}, 'other': {'fin_err'}}
        return tab
    rt = 'READ' if kind == 'cmd.read' else 'TEST'
    return {'OK': {'fin'}, 'DATA_OK': {'flush>AFTER_FLUSH_OK'}, 'DATA_NEXT': {'flush>AFTER_FLUSH_FORMAT_%s_ARGS' % rt},
            'NEXT': {'reformat'}, 'HOLD': None, 'HOLD_EXIT_OK': {'fin+release(OK)', 'fin'}, 'HOLD_EXIT_ERROR': {'fin+release(ERR)', 'fin'},
            'PRINT_CMD_LIST_OK': {'fin'} if rt == 'READ' else None, 'ERROR': {'fin'}, 'other': {'fin'}}


def c10(ctx):
    m = ctx.model
    E = m.prog.enums
    codes = {c: E['CAT_RETURN_STATE_' + c] for c in CODES}
    others = [min(codes.values()) - 1, max(codes.values()) + 1, 100, -100]
    ctx.assume('a handler may return any int; an event handler does not return HOLD (O1)')
    tables = {}
    for which in ('cmd', 'evt'):
        ex, ts = transitions(ctx, which)
        base = ('S',) if which == 'cmd' else ('S', 'unsolicited_fsm')
        for t in ts:
            cbs = [e for e in t.evs('cb') if e['kind'].startswith('cmd.')]
            if not cbs:
                if which == 'evt':
                    ctx.check('no-ack-for-events', not t.acks(), t.site(), 'the event machine produces a result code')
                continue
            if t.count(lambda e: e['k'] == 'cb' and e['kind'].startswith('cmd.'))[1] > 1:
                ctx.check('table', False, t.site(cbs[0]), 'two command handlers run in one step')
                continue
            e = cbs[0]
            ret = e['ret']
            act = _action(t, which, base)
            tab = tables.setdefault((which, e['kind']), {})
            for cname, cv in list(codes.items()) + [('other', o) for o in others]:
                if t.raw.facts.eq(ret, cv) is not False:
                    tab.setdefault(cname, {}).setdefault(act, t)
            if which == 'evt':
                ctx.check('no-ack-for-events', not t.acks(), t.site(e), 'an event handler step produces a result code')
    want_kinds = [('cmd', 'cmd.write'), ('cmd', 'cmd.run'), ('cmd', 'cmd.read'), ('cmd', 'cmd.test'), ('evt', 'cmd.read'), ('evt', 'cmd.test')]
    for wk in want_kinds:
        if wk not in tables:
            raise AnalysisBroken('no transition calls the %s handler in the %s machine' % (wk[1], wk[0]))
    for (which, kind), tab in sorted(tables.items()):
        ref = _ref_table(which, kind)
        row = {}
        for cname in CODES + ['other']:
            acts = tab.get(cname, {})
            row[cname] = sorted(acts)
            if which == 'evt' and cname == 'HOLD':
                continue
            want = ref[cname]
            site = 'src/cat.c:%s/%s' % (which, kind)
            if not acts:
                ctx.check('table', False, site, 'return code %s of the %s handler (%s machine) is not handled at all' % (cname, kind, which))
                continue
            if want is None:
                ctx.instance('table-dontcare')
                continue
            for a, t in acts.items():
                # a re-format may end in an error when the name does not fit: allowed next to 'reformat'
                ok = a in want
                ctx.check('table', ok, t.site(), '%s machine, %s handler returning %s: response action is %s, documented is %s'
                          % (which, kind, cname, a, sorted(want)))
        ctx.sample({'machine': which, 'handler': kind, 'table': row})
    # continuations after an emitted buffer
    ex, ts = transitions(ctx, 'cmd')
    for t in ts:
        if t.frm.endswith('AFTER_FLUSH_OK'):
            ctx.check('continuations', t.count(t.is_ack) == (1, 1) and all(a['text'] == 'OK' for a in t.acks()), t.site(),
                      'after the data line the response is not finished with exactly one OK')
        if t.frm.endswith('AFTER_FLUSH_FORMAT_READ_ARGS') or t.frm.endswith('AFTER_FLUSH_FORMAT_TEST_ARGS'):
            ctx.check('continuations', _action(t, 'cmd', ('S',)) in ('reformat',), t.site(),
                      'after DATA_NEXT the buffer is not formatted afresh (%s)' % _action(t, 'cmd', ('S',)))
            ctx.check('continuations', not t.evs('io_write'), t.site(), 'DATA_NEXT emits twice')
    exu, tsu = transitions(ctx, 'evt')
    for t in tsu:
        if t.frm.endswith('AFTER_FLUSH_OK'):
            ctx.check('continuations', _action(t, 'evt', ('S', 'unsolicited_fsm')) == 'fin', t.site(), 'after the event data line the event is not finished')
        if t.frm.endswith('AFTER_FLUSH_FORMAT_READ_ARGS') or t.frm.endswith('AFTER_FLUSH_FORMAT_TEST_ARGS'):
            ctx.check('continuations', _action(t, 'evt', ('S', 'unsolicited_fsm')) == 'reformat', t.site(), 'after DATA_NEXT the event buffer is not formatted afresh')
    # variable callbacks: a non-zero result aborts before the command handler
    for which in ('cmd', 'evt'):
        ex, ts = transitions(ctx, which)
        for t in ts:
            for e in t.evs('cb'):
                if e['kind'] in ('var.read', 'var.write'):
                    nz = t.raw.facts.eq(e['ret'], 0) is False
                    if nz:
                        after_cmd = any(x['kind'].startswith('cmd.') for x in t.evs('cb'))
                        if which == 'cmd':
                            ok = set(a['text'] for a in t.acks()) == {'ERROR'} and t.count(t.is_ack) == (1, 1) and not after_cmd
                        else:
                            ok = t.to.endswith('_IDLE') and not after_cmd
                        ctx.check('var-callback', ok, t.site(e), 'a failing %s callback does not abort the command with ERROR at once' % e['kind'])
                    else:
                        # the command goes on: only a zero result may let it
                        aborted = (set(a['text'] for a in t.acks()) == {'ERROR'}) if which == 'cmd' else t.to.endswith('_IDLE')
                        zero = t.raw.facts.eq(e['ret'], 0) is True
                        ctx.check('var-callback', zero or aborted, t.site(e),
                                  'the command continues after a %s callback whose result may be non-zero' % e['kind'])
    return ctx


RULES['C10'] = c10
