"""Model construction and caching, rule context, evidence.

One model per configuration (NDEBUG on/off, ring capacity): the program, the
two extracted machines with their transitions, and helpers to run single
functions.  The model is a pure function of /repo/src, the build flags and this
package's own source; it is cached under /verif/.cache keyed by their hash, so
every check reflects the current working tree.
"""
import hashlib
import json
import os
import pickle
import sys
import time

from .frontend import load_program, AnalysisBroken, REPO, VERIF, CACHE, node_pos, _hash_sources
from .fsm import Machines, Explorer
from .interp import State, SELF, trace_events, is_lin, Interp
from .lin import Lin

sys.setrecursionlimit(1000000)


def engine_hash():
    h = hashlib.sha256()
    d = os.path.dirname(os.path.abspath(__file__))
    for fn in sorted(os.listdir(d)):
        if fn.endswith('.py') and fn not in ('core.py', 'cli.py', 'graph.py', 'dfa.py') and not fn.startswith('rule'):
            h.update(open(os.path.join(d, fn), 'rb').read())
    return h.hexdigest()[:16]


ENGINE_MODULES = ('model', 'fsm', 'interp', 'lin', 'frontend')


def anchor_guard(prog, rule_modules):
    """The rules and the environment model name fields of the library's structures (the state anchors
    of the properties).  anchors.json lists the fields each structure had when the rules were written;
    if one of them is gone and the code that decides this property mentions it, there is no verdict
    (a renamed field is neither a pass nor a violation)."""
    import re
    base = json.load(open(os.path.join(os.path.dirname(os.path.abspath(__file__)), 'anchors.json')))
    d = os.path.dirname(os.path.abspath(__file__))
    srcs = {}
    for mod in tuple(ENGINE_MODULES) + tuple(rule_modules):
        fp = os.path.join(d, mod + '.py')
        if os.path.exists(fp):
            srcs[mod] = open(fp).read()
    for struct, fields in base['structs'].items():
        rec = prog.records.get(struct)
        present = set(f[0] for f in rec['fields']) if rec else set()
        for f in fields:
            if f in present:
                continue
            pat = re.compile(r'(?<![A-Za-z0-9_])%s(?![A-Za-z0-9_])' % re.escape(f))
            users = [m for m, src in srcs.items() if pat.search(src)]
            if users:
                raise AnalysisBroken('anchor vanished: field %s of struct %s no longer exists (named in catsa/%s.py)' % (f, struct, users[0]))
    for enum, consts in base['enums'].items():
        for c in consts:
            if c in prog.enums:
                continue
            pat = re.compile(r'(?<![A-Za-z0-9_])%s(?![A-Za-z0-9_])' % re.escape(c))
            users = [m for m, src in srcs.items() if pat.search(src)]
            if users:
                raise AnalysisBroken('anchor vanished: enumerator %s no longer exists (named in catsa/%s.py)' % (c, users[0]))


class Model:
    def __init__(self, defines=(), ndebug=True):
        self.defines = tuple(defines)
        self.ndebug = ndebug
        self.timing = {}
        t = time.time()
        self.prog = load_program(defines=defines, ndebug=ndebug)
        self.timing['frontend_s'] = round(time.time() - t, 2)
        if getattr(Model, 'guard_modules', None) is not None:
            anchor_guard(self.prog, Model.guard_modules)
        self.ms = Machines(self.prog)
        self.cmd = None
        self.evt = None

    # ------------------------------------------------------------------ machines
    def machine(self, which):
        """the extracted machine 'cmd' or 'evt' of this configuration (explored on demand, cached)"""
        cur = getattr(self, which)
        if cur is not None:
            return cur
        key = _hash_sources(('model', which, self.defines, self.ndebug, engine_hash()))
        pk = os.path.join(CACHE, 'fsm-%s-%s.pkl' % (which, key))
        ex = Explorer(self.ms, which)
        if os.path.exists(pk) and not os.environ.get('CATSA_NOCACHE'):
            try:
                with open(pk, 'rb') as fh:
                    d = pickle.load(fh)
                ex.live, ex.store, ex.transitions, ex.stats = d['live'], d['store'], d['transitions'], d['stats']
                for t in ex.transitions:
                    t['pre'] = t.get('pre_env') or ex.store[t['from_key']][0]
                self.timing['fsm_%s_cached' % which] = True
                setattr(self, which, ex)
                return ex
            except Exception:
                pass
        t0 = time.time()
        ex.explore(self.ms.init_state())
        ex.collect()
        self.timing['fsm_%s_s' % which] = round(time.time() - t0, 1)
        self.timing['fsm_%s_cached' % which] = False
        os.makedirs(CACHE, exist_ok=True)
        d = {'live': ex.live, 'store': ex.store, 'stats': ex.stats,
             'transitions': [{k: v for k, v in t.items() if k != 'pre'} for t in ex.transitions]}
        tmp = pk + '.%d.tmp' % os.getpid()
        with open(tmp, 'wb') as fh:
            pickle.dump(d, fh, protocol=4)
        os.replace(tmp, pk)
        self._gc_cache()
        setattr(self, which, ex)
        return ex

    def machines(self):
        return self.machine('cmd'), self.machine('evt')

    def _gc_cache(self, keep=16):
        try:
            fs = sorted((os.path.getmtime(os.path.join(CACHE, f)), f) for f in os.listdir(CACHE) if f.startswith('fsm-'))
            for _, f in fs[:-keep]:
                os.remove(os.path.join(CACHE, f))
        except OSError:
            pass

    # ------------------------------------------------------------- single functions
    def fresh_interp(self):
        ms = Machines(self.prog)
        return ms

    def run(self, fname, args=None, setup=None, ms=None, shallow=None):
        """paths of one function from an otherwise unconstrained parser object"""
        ms = ms or self.ms
        s = State()
        s.pnull['DESC'] = False
        s.pnull['IO'] = False
        if setup:
            setup(s)
        fn = self.prog.functions.get(fname)
        if fn is None:
            raise AnalysisBroken('anchor vanished: function %s' % fname)
        if args is None:
            args = [SELF]
        old = ms.model.opaque
        ms.model.opaque = shallow
        try:
            return ms.it.run_function(fname, s, list(args))
        finally:
            ms.model.opaque = old

    def exported_functions(self):
        return sorted(n for n, f in self.prog.functions.items() if f.get('storageClass') != 'static')

    def fn_line(self, name):
        f = self.prog.functions.get(name)
        return node_pos(f)[1] if f else None


class Finding:
    def __init__(self, rule, ok, site, msg, detail=None):
        self.rule, self.ok, self.site, self.msg, self.detail = rule, ok, site, msg, detail

    def key(self):
        return '%s|%s' % (self.rule, self.site)


class Ctx:
    """what a property's rules report into"""

    def __init__(self, pid, model, tier):
        self.pid = pid
        self.model = model
        self.tier = tier
        self.findings = []
        self.counts = {}
        self.samples = []
        self.notes = []
        self.assumptions = []
        self.extra = {}

    def check(self, rule, ok, site, msg, detail=None):
        rid = '%s/%s' % (self.pid, rule)
        self.counts[rid] = self.counts.get(rid, 0) + 1
        if not ok:
            self.findings.append(Finding(rid, False, site, msg, detail))
        return ok

    def instance(self, rule, n=1):
        rid = '%s/%s' % (self.pid, rule)
        self.counts[rid] = self.counts.get(rid, 0) + n

    def sample(self, x):
        if len(self.samples) < 12:
            self.samples.append(x)

    def site(self, fn, line):
        return 'src/cat.c:%s:%s' % (line, fn)

    def assume(self, text):
        if text not in self.assumptions:
            self.assumptions.append(text)
