"""Extraction of the two state machines of cAT as labelled transition systems.

The command machine is explored through `cat_service` itself, with the event
dispatcher replaced by a havoc summary; the event machine through its
dispatcher, with the command machine's fields unknown.  An abstract step state
is an interp.State whose integer fields are canonical atoms f:<field>; states
are partitioned by their discrete components and joined (with widening) inside
a partition until nothing changes.  The model is rebuilt from the source on
every run.
"""
import time
from .lin import Lin, INF
from .frontend import AnalysisBroken, node_pos
from .interp import Interp, State, SELF, NULL, TOP, is_lin, lin_repr, TN, trace_events, Unsupported
from .model import CatModel

STABLE_PREFIX = ('DESC.', 'IO.', 'MUTEX.', 'CMD.', 'VAR.', 'GRP.', 'UCMD.', 'UVAR.', 'strlen(', 'shr(DESC.')


def find_dispatchers(prog):
    """the function that switches on unsolicited_fsm.state, and the one that switches on state"""
    res = {}

    def switches_on(n, acc):
        if n.get('kind') == 'SwitchStmt':
            c = n['inner'][0]
            while c.get('kind') in ('ImplicitCastExpr', 'ParenExpr'):
                c = c['inner'][0]
            if c.get('kind') == 'MemberExpr' and c.get('name') == 'state':
                rec = prog.field_by_id.get(c.get('referencedMemberDecl'), (None,))[0]
                acc.append(rec)
        for ch in n.get('inner', ()):
            if isinstance(ch, dict) and ch:
                switches_on(ch, acc)
    for name, fn in prog.functions.items():
        acc = []
        switches_on(fn['_body'], acc)
        for rec in acc:
            res.setdefault(rec, []).append(name)
    evt = res.get('cat_unsolicited_fsm', [])
    cmd = res.get('cat_object', [])
    if len(evt) != 1 or len(cmd) != 1:
        raise AnalysisBroken('cannot identify the two state dispatchers: event=%r command=%r' % (evt, cmd))
    return cmd[0], evt[0]


def find_flat_index_functions(prog):
    """helpers that map a flat command index to its descriptor by walking the groups"""
    out = {}
    for name, fn in prog.functions.items():
        ps = fn['_params']
        if len(ps) != 2 or ps[1]['type'].get('desugaredQualType', ps[1]['type']['qualType']) not in ('unsigned long', 'size_t'):
            continue
        found = []

        def walk(n):
            if n.get('kind') == 'ForStmt':
                txt = []

                def names(m):
                    if m.get('kind') == 'MemberExpr':
                        txt.append(m.get('name'))
                    for ch in m.get('inner', ()):
                        if isinstance(ch, dict) and ch:
                            names(ch)
                if n['inner'][2]:
                    names(n['inner'][2])
                if 'cmd_group_num' in txt:
                    found.append(n)
            for ch in n.get('inner', ()):
                if isinstance(ch, dict) and ch:
                    walk(ch)
        walk(fn['_body'])
        if not found:
            continue
        rt = fn['type']['qualType'].split('(')[0].strip()
        if 'struct cat_command' in rt and '*' in rt:
            out.setdefault('cmd', []).append(name)
        elif rt in ('bool', '_Bool'):
            out.setdefault('disable', []).append(name)
    if len(out.get('cmd', [])) != 1 or len(out.get('disable', [])) != 1:
        raise AnalysisBroken('cannot identify the flat-index helpers: %r' % (out,))
    return out['cmd'][0], out['disable'][0]


class Machines:
    """shared set-up: program, model, interpreter, anchors"""

    def __init__(self, prog):
        self.prog = prog
        self.model = CatModel(prog)
        self.it = Interp(prog, self.model)
        self.cmd_dispatch, self.evt_dispatch = find_dispatchers(prog)
        self.f_cmd_by_index, self.f_disable_by_index = find_flat_index_functions(prog)
        self.model.overrides[self.f_cmd_by_index] = self.model.ov_cmd_by_index
        self.model.overrides[self.f_disable_by_index] = self.model.ov_disable_by_index
        self.enums = prog.enums
        self.state_names = {v: k for k, v in prog.enum_types['cat_state']['consts'].items()}
        self.ustate_names = {v: k for k, v in prog.enum_types['cat_unsolicited_state']['consts'].items()}

    # ------------------------------------------------------------ initial state
    def init_state(self):
        res = []
        for shared in (True, False):
            s = State()
            s.pnull['DESC'] = False
            s.pnull['IO'] = False
            s.pnull['DESC.unsolicited_buf'] = shared
            outs = self.it.run_function('cat_init', s, [SELF, ('obj', 'DESC'), ('obj', 'IO'), ('obj', 'MUTEX')])
            if not outs:
                raise AnalysisBroken('cat_init has no path')
            for st, _ in outs:
                # commands_num is the total number of commands (only cat_init writes it; rule WHO/commands_num).
                # Domain of C03: at least one command, and capacity >= ceil(commands / 4).
                loc = ('S', 'commands_num')
                st.facts.drop_atoms(lambda a: a == 'f:commands_num')
                cn = self.it.fresh(st, 'f:commands_num', 'unsigned long')
                st.mem[loc] = cn
                st.facts.assume_le(cn.scale(-1), -1)
                cap = self.model.region_cap(('BUF',), st, self.it)
                st.facts.assume_le(cn.sub(cap.scale(4)), 0)
                res.append(st)
        return res


def api_arg_makers(prog, it, fname):
    """argument lists an application may pass to an exported function: one maker per combination
    (enumeration-typed integers free in their range, other integers free, strings and objects symbolic)"""
    fn = prog.functions[fname]
    variants = [[]]
    for p in fn['_params'][1:]:
        q = p['type'].get('desugaredQualType', p['type']['qualType'])
        nv = []
        for v in variants:
            if p['type']['qualType'] == 'cat_fsm_type':
                nv.append(v + [('const', 0)])
                nv.append(v + [('const', 1)])
            elif prog.int_type(q) is not None:
                nv.append(v + [('int', p)])
            elif 'char' in q:
                nv.append(v + [('str', p)])
            else:
                nv.append(v + [('ptr', p)])
        variants = nv

    def maker(var):
        def mk(s):
            args = [SELF]
            for a in var:
                if a[0] == 'const':
                    args.append(Lin.c(a[1]))
                elif a[0] == 'int':
                    x = it.fresh(s, 'arg:' + a[1]['name'], a[1]['type'])
                    en = prog.enum_of(a[1]['type'])
                    if en is not None:
                        vals = en['consts'].values()
                        s.facts.iv['arg:' + a[1]['name']] = (min(vals), max(vals))
                    args.append(x)
                elif a[0] == 'str':
                    args.append(('mem', ('dstr', 'ARG_' + a[1]['name']), Lin.c(0)))
                    s.pnull['ARG_' + a[1]['name']] = False
                else:
                    nm = {'desc': 'DESC', 'io': 'IO', 'mutex': 'MUTEX'}.get(a[1]['name'], 'ARG_' + a[1]['name'])
                    args.append(('obj', nm))
                    if nm != 'MUTEX':
                        s.pnull[nm] = False
            return args
        return mk
    return [maker(v) for v in variants]


def is_cmd_loc(loc):
    return loc[0] == 'S' and (len(loc) < 2 or loc[1] != 'unsolicited_fsm')


def is_evt_loc(loc):
    return loc[0] == 'S' and len(loc) >= 2 and loc[1] == 'unsolicited_fsm'


RING_FIELDS = ('unsolicited_cmd_buffer', 'unsolicited_cmd_buffer_tail', 'unsolicited_cmd_buffer_head',
               'unsolicited_cmd_buffer_items_count')


_EX = None


def _worker_step(k):
    ex = _EX
    s = ex.store[k][0]
    byk = {}
    for post, rv in ex.step(s):
        c = ex.canon(post)
        byk.setdefault(ex.key(c), []).append(c)
    out = []
    for kk, cs in byk.items():
        # pre-join what this step sends to the same partition (the parent joins across steps)
        uniq = []
        for c in cs:
            if not any(ex.it.same_state(c, u) for u in uniq):
                uniq.append(c)
        if len(uniq) > 1:
            j = ex.it.join(uniq, 'step', None, namefn=ex.fname)
            j.stack = ()
            ex._gc(j)
            uniq = [j]
        out.append((kk, uniq[0]))
    return out


def _worker_collect(k):
    ex = _EX
    s = ex.store[k][0]
    out = []
    for env, pre, outs in ex.step_env(s, True):
        for post, rv in outs:
            c = ex.canon(post)
            out.append({'from': ex.state_name(s), 'from_key': k, 'to': ex.state_name(c), 'to_key': ex.key(c),
                        'post': c, 'raw_post': post, 'ret': rv, 'trace': post.trace, 'env': env, 'pre_env': pre})
    return out


class Explorer:
    def __init__(self, ms, which):
        self.ms = ms
        self.it = ms.it
        self.model = ms.model
        self.which = which            # 'cmd' | 'evt'
        self._env_actions = None
        self.store = {}               # key -> [State, visits]
        self.transitions = []
        self.stats = {'steps': 0, 'joins': 0, 'time': 0.0}
        self.own = is_cmd_loc if which == 'cmd' else is_evt_loc
        self.max_states = 1500
        self.live = None
        self.horizon = 2
        self._locidx = {}
        self.state_loc = ('S', 'state') if which == 'cmd' else ('S', 'unsolicited_fsm', 'state')

    # ---------------------------------------------------------------- naming
    def fname(self, loc):
        if loc[0] == 'G':
            return 'g:' + '.'.join(str(x) if not isinstance(x, tuple) else '_'.join(map(str, x)) for x in loc[1])
        return 'f:' + '.'.join(str(x) for x in loc[1:])

    def numeric(self, loc):
        qt = self.model.loc_type(loc)
        if qt is None:
            return False
        q = qt.replace('const ', '').strip()
        if loc == ('S', 'hold_exit_status'):
            return True       # joined, not a partition component (stale values outside a hold are dead)
        if q in ('bool', '_Bool', 'char') or self.model.prog.enum_of(q) is not None:
            return False
        it_ = self.model.prog.int_type(q)
        # counters and cursors: every unsigned integer field, whatever its width
        return it_ is not None and not it_[1]

    # ------------------------------------------------------------ canonical form
    def canon(self, s):
        it = self.it
        s = s.copy()
        s.stack = ()
        s.trace = None
        for k in [k for k in s.mem if k[0] != 'S']:
            del s.mem[k]
        # fields of the other machine are not part of this machine's state
        for k in [k for k in s.mem if k[0] == 'S' and not self.own(k) and k not in (('S', 'desc'), ('S', 'io'), ('S', 'mutex'))]:
            del s.mem[k]
        if self.which == 'evt':
            # keep the pointers set once by cat_init
            pass
        # the ring is the environment's (triggers between steps): not part of the explored state
        for k in [k for k in s.mem if is_evt_loc(k) and len(k) > 2 and k[2] in RING_FIELDS]:
            del s.mem[k]
        # integer fields -> canonical atoms
        force = set()
        for k, v in s.mem.items():
            if is_lin(v) and not v.is_const() and v != Lin.atom(self.fname(k)):
                force.add(k)
        for gk, gv in s.ghost.items():
            if is_lin(gv) and not gv.is_const() and gv != Lin.atom(self.fname(('G', gk))):
                force.add(('G', gk))
        if force:
            s = it.join([s], 'canon', None, namefn=self.fname, force=force)
            s.stack = ()
        if self.which == 'cmd':
            self._rename_obj(s, ('S', 'cmd'), 'CMD', ('S', 'var'), 'VAR')
        else:
            self._rename_obj(s, ('S', 'unsolicited_fsm', 'cmd'), 'UCMD', ('S', 'unsolicited_fsm', 'var'), 'UVAR')
        self._gc(s)
        return s

    def _rename_obj(self, s, cloc, cname, vloc, vname):
        """make the command / variable the machine points at the canonical objects CMD / VAR"""
        for loc, canon_name in ((vloc, vname), (cloc, cname)):
            v = s.mem.get(loc)
            if v is None:
                continue
            cur = None
            if isinstance(v, tuple):
                if v[0] == 'obj':
                    cur = v[1]
                elif v[0] == 'oarr':
                    cur = v[1] + '[0]'
                elif v[0] == 'oelem':
                    cur = '%s[%s]' % (v[1], lin_repr(v[2]))
            if cur is None or cur == canon_name:
                if v == NULL or (isinstance(v, tuple) and v[0] in ('null', 'top', 'uninit')):
                    self._drop_obj(s, canon_name)
                    if loc == cloc:
                        self._drop_obj(s, 'GRP' if cname == 'CMD' else 'UGRP')
                continue
            nonnull = s.pnull.get(cur if v[0] == 'obj' else v[1])
            self._drop_obj(s, canon_name)
            self._rename_prefix(s, cur, canon_name)
            if v[0] != 'obj':
                # pointer into an array of the (valid) descriptor: non-null when the array is
                nonnull = False if s.pnull.get(v[1]) is False or True else nonnull
            if nonnull is not None:
                s.pnull[canon_name] = nonnull
            s.mem[loc] = ('obj', canon_name)
            if loc == cloc:
                # group of the selected command, when it came from the flat index
                gname = 'GRP' if cname == 'CMD' else 'UGRP'
                self._drop_obj(s, gname)
                if cur.startswith('CMDS['):
                    g = 'GRPS[' + cur[len('CMDS['):]
                    self._rename_prefix(s, g, gname)

    def _drop_obj(self, s, name):
        pre = (name + '.', name + '[')
        s.facts.drop_atoms(lambda a: a.startswith(pre) or ('(' + name + '.') in a)
        for k in [k for k in s.pnull if k == name or k.startswith(pre)]:
            del s.pnull[k]

    def _rename_prefix(self, s, old, new):
        def rn(a):
            if a == old:
                return new
            if a.startswith(old + '.') or a.startswith(old + '['):
                return new + a[len(old):]
            i = a.find('(' + old + '.')
            if i >= 0:
                return a[:i + 1] + new + a[i + 1 + len(old):]
            return a
        f = s.facts
        f.iv = {rn(a): v for a, v in f.iv.items()}
        f.ex = {rn(a): v for a, v in f.ex.items()}
        f.ub = {Lin(k, 0).rename(rn).terms: v for k, v in f.ub.items()}
        s.pnull = {rn(a): v for a, v in s.pnull.items()}

        def rv(v):
            if is_lin(v):
                return v.rename(rn)
            if isinstance(v, tuple):
                return tuple(rv(x) if (is_lin(x) or isinstance(x, tuple)) else (rn(x) if isinstance(x, str) else x) for x in v)
            return v
        s.mem = {k: rv(v) for k, v in s.mem.items()}
        s.ghost = {k: rv(v) for k, v in s.ghost.items()}

    def _gc(self, s):
        live = set()

        def collect(v):
            if is_lin(v):
                live.update(a for a, _ in v.terms)
            elif isinstance(v, tuple):
                for x in v:
                    collect(x)
        for v in s.mem.values():
            collect(v)
        for k in [k for k in s.ghost if isinstance(k, tuple) and k[0] in ('def', 'snprintf', 'byte', 'arr', 'arrterm')]:
            del s.ghost[k]
        for v in s.ghost.values():
            collect(v)
        keep = lambda a: a in live or a.startswith(STABLE_PREFIX)
        s.facts.project_out(lambda a: not keep(a))
        s.prov = {}
        # nullness of objects that no longer exist
        def live_ptr(name):
            for o in ('DESC', 'IO', 'MUTEX', 'CMD', 'VAR', 'GRP', 'UCMD', 'UVAR', 'UGRP'):
                if name == o or name.startswith((o + '.', o + '[')):
                    return True
            return False
        for k in [k for k in s.pnull if not live_ptr(k)]:
            del s.pnull[k]

    # --------------------------------------------------------------------- key
    def key(self, s):
        """partition of abstract states: the control state plus the discrete fields that are
        live there (read before being overwritten on some continuation).  Any partition is
        sound; this one only decides precision."""
        st = self.state_name(s)
        live = self.live.get(st) if self.live is not None else None
        parts = []
        for k in sorted((k for k in s.mem if self.own(k)), key=repr):
            v = s.mem[k]
            if self.numeric(k):
                continue
            if live is not None and k not in live and k != self.state_loc:
                continue
            if is_lin(v):
                if v.is_const():
                    parts.append((k, v.const))
                else:
                    parts.append((k, self._class(k, v, s)))
            else:
                parts.append((k, v))
        gh = tuple(sorted((repr(k), v is not None) for k, v in s.ghost.items() if isinstance(k, tuple) and k[0] == 'term'))
        return (tuple(parts), gh, s.pnull.get('DESC.unsolicited_buf'))

    # ---------------------------------------------------------------- liveness
    def compute_liveness(self):
        """field liveness per control state from one blank run of every handler"""
        it = self.it
        names = self.ms.state_names if self.which == 'cmd' else self.ms.ustate_names
        reads, kills, succ = {}, {}, {}
        stored_consts = {}
        runs = {}
        for val, name in names.items():
            s = State()
            s.pnull['DESC'] = False
            s.pnull['IO'] = False
            s.mem[('S', 'desc')] = ('obj', 'DESC')
            s.mem[('S', 'io')] = ('obj', 'IO')
            s.mem[self.state_loc] = Lin.c(val)
            outs = self.step(s)
            runs[name] = outs
            for post, rv in outs:
                for e in trace_events(post.trace):
                    if e['k'] == 'st' and is_lin(e.get('val')) and e['val'].is_const():
                        stored_consts.setdefault(e['loc'], set()).add(e['val'].const)
        for name, outs in runs.items():
            trans = []
            for post, rv in outs:
                rb, mw = self._rb_mw(post.trace)
                v = post.mem.get(self.state_loc)
                if is_lin(v) and v.is_const():
                    tos = [names.get(v.const, '?')]
                else:
                    tos = None
                    sg = v.single() if is_lin(v) else None
                    if sg and sg[0].startswith('f:'):
                        # the next state is loaded from another field: every constant stored there
                        for loc, cs in stored_consts.items():
                            if 'f:' + '.'.join(str(x) for x in loc[1:]) == sg[0]:
                                tos = [names.get(c, '?') for c in cs]
                    if tos is None:
                        tos = list(names.values())
                trans.append((rb, mw, tos))
            reads[name] = trans
        # bounded-horizon liveness: fields read within the next `horizon` steps without being overwritten
        live = {n: set() for n in names.values()}
        for _ in range(self.horizon):
            nl = {}
            for name, trans in reads.items():
                new = set()
                for rb, mw, tos in trans:
                    new |= rb
                    for t in tos:
                        new |= (live.get(t, set()) - mw)
                nl[name] = new
            live = nl
        self.live = {n: set(k for k in v if self.own(k)) for n, v in live.items()}
        self.live['?'] = set().union(*self.live.values()) if self.live else set()
        return self.live

    def _rb_mw(self, tn):
        """(read-before-written fields, must-written fields) of an effect graph ending at tn"""
        idx = self._locidx
        # iterative post-order over the DAG, location sets as bit masks
        memo = {}
        stack = [(tn, False)]
        FULL = -1
        while stack:
            t, done = stack.pop()
            if t is None:
                continue
            k = id(t)
            if k in memo:
                continue
            if not done:
                stack.append((t, True))
                for p in t.preds:
                    if p is not None and id(p) not in memo:
                        stack.append((p, False))
                continue
            rb = 0
            mw = FULL
            anyp = False
            for p in t.preds:
                if p is None:
                    a, b = 0, 0
                else:
                    a, b = memo[id(p)]
                rb |= a
                mw &= b
                anyp = True
            if not anyp:
                mw = 0
            e = t.ev
            if e is not None:
                kk = e['k']
                if kk == 'ld':
                    bit = 1 << idx.setdefault(e['loc'], len(idx))
                    if not (mw & bit):
                        rb |= bit
                elif kk == 'st':
                    mw |= 1 << idx.setdefault(e['loc'], len(idx))
            memo[k] = (rb, mw)
        rb, mw = memo[id(tn)] if tn is not None else (0, 0)
        inv = {v: k for k, v in idx.items()}
        return (frozenset(inv[i] for i in range(len(idx)) if rb >> i & 1),
                frozenset(inv[i] for i in range(len(idx)) if mw >> i & 1))

    def _class(self, k, v, s):
        lo, hi = s.facts.lower(v), s.facts.upper(v)
        sg = v.single()
        ex = s.facts.ex.get(sg[0], frozenset()) if sg else frozenset()
        if k == ('S', 'current_char'):
            notlf = (10 < lo or 10 > hi or 10 in ex)
            return ('char', 'notLF' if notlf else 'any')
        if hi - lo <= 3:
            return ('range', lo, hi, tuple(sorted(x for x in ex if lo <= x <= hi)))
        return ('num',)

    def state_name(self, s):
        if self.which == 'cmd':
            v = s.mem.get(('S', 'state'))
            names = self.ms.state_names
        else:
            v = s.mem.get(('S', 'unsolicited_fsm', 'state'))
            names = self.ms.ustate_names
        if is_lin(v) and v.is_const():
            return names.get(v.const, str(v.const))
        return '?'

    # ------------------------------------------------------------------ stepping
    def env_actions(self):
        """the exported functions through which the application can change what this machine's explored
        state contains, between two service calls: found by running each on an unconstrained object and
        looking at the fields it stores (cat_init and cat_service are not calls between steps; the event
        ring is not part of either machine's explored state)"""
        if self._env_actions is not None:
            return self._env_actions
        it, prog = self.it, self.ms.prog
        acts = []
        for f in sorted(n for n, fn in prog.functions.items() if fn.get('storageClass') != 'static'):
            if f in ('cat_init', 'cat_service'):
                continue
            for i, mk in enumerate(api_arg_makers(prog, it, f)):
                s = State()
                s.pnull['DESC'] = False
                s.pnull['IO'] = False
                s.pnull['MUTEX'] = True
                s.mem[('S', 'desc')] = ('obj', 'DESC')
                s.mem[('S', 'io')] = ('obj', 'IO')
                stores = set()
                for s2, rv in it.run_function(f, s, mk(s)):
                    for e in trace_events(s2.trace):
                        if e['k'] == 'st' and e['loc'][0] == 'S' and self.own(e['loc']):
                            if len(e['loc']) > 2 and e['loc'][1] == 'unsolicited_fsm' and e['loc'][2] in RING_FIELDS:
                                continue
                            stores.add(e['loc'])
                if stores:
                    acts.append((f, i, mk, sorted(stores)))
        self._env_actions = acts
        return acts

    def env_states(self, s0):
        """the states a step may start from: s0 itself, and s0 after each call by which the environment
        (the application, or an event handler through the same helper) can change this machine's
        fields between two service calls.  Nothing about these calls is modelled: the bodies of the
        exported functions found by env_actions() are interpreted on the state; calls that leave it
        unchanged are dropped.  On the pinned tree the only such call is the release request
        (cat_hold_exit), and it changes something only during a hold."""
        s = s0.copy()
        s.trace = None
        s.pnull['MUTEX'] = True           # locking is C16's subject, not the machines'
        outs = [('none', s)]
        for f, i, mk, stores in self.env_actions():
            s1 = s.copy()
            args = mk(s1)
            for s2, rv in self.it.run_function(f, s1, args):
                s2.trace = None
                s2.stack = ()
                # the call's own temporaries are not state
                s2.facts.drop_atoms(lambda a: a.startswith('arg:'))
                if not any(self.it.same_state(s2, o) for _, o in outs):
                    outs.append(('%s#%d' % (f, i), s2))
        return outs

    def step_env(self, s0, with_trace=False):
        """-> list of (environment action, state the step started from, outcomes of the step)"""
        it = self.it
        res = []
        for nm, s in self.env_states(s0):
            self.stats['steps'] += 1
            pre = s.copy() if nm != 'none' else None
            if self.which == 'cmd':
                self.model.overrides[self.ms.evt_dispatch] = self.ov_evt_havoc
                try:
                    outs = it.run_function('cat_service', s, [SELF])
                finally:
                    self.model.overrides.pop(self.ms.evt_dispatch, None)
            else:
                outs = it.run_function(self.ms.evt_dispatch, s, [SELF])
            res.append((nm, pre, outs))
        return res

    def step(self, s0, with_trace=False):
        outs = []
        for nm, pre, o in self.step_env(s0, with_trace):
            outs.extend(o)
        return outs

    def ov_evt_havoc(self, it, fn, args, s, n):
        """summary of one event-machine step as seen by the command machine"""
        for k in [k for k in s.mem if is_evt_loc(k)]:
            del s.mem[k]
        s.facts.drop_atoms(lambda a: a.startswith('f:unsolicited_fsm.'))
        for k in [k for k in s.pnull if k.startswith(('UCMD', 'UVAR'))]:
            del s.pnull[k]
        s.ev('evt_step', n)
        r = self.model.fresh_site(s, it, n, 'R@evt', 'int', (min(self.ms.prog.enum_types['cat_status']['consts'].values()),
                                                            max(self.ms.prog.enum_types['cat_status']['consts'].values())))
        return [(s, r)]

    # --------------------------------------------------------------- exploration
    def explore(self, inits):
        t0 = time.time()
        it = self.it
        import os
        dbg = os.environ.get('CATSA_DEBUG')
        if self.live is None:
            self.compute_liveness()
        self.env_actions()
        pending = set()
        byk = {}
        for s in inits:
            c = self.canon(s)
            byk.setdefault(self.key(c), []).append(c)
        for k, cs in byk.items():
            j = cs[0]
            if len(cs) > 1:
                j = it.join(cs, 'step', None, namefn=self.fname)
                j.stack = ()
                self._gc(j)
            self.store[k] = [j, 1]
            pending.add(k)
        rounds = 0
        while pending:
            rounds += 1
            if rounds > 200:
                raise AnalysisBroken('%s machine exploration does not converge' % self.which)
            arrivals = {}
            t1 = time.time()
            for res in self._pmap(_worker_step, list(pending)):
                for kk, c in res:
                    arrivals.setdefault(kk, []).append(c)
            pending = set()
            t2 = time.time()
            for kk, posts in arrivals.items():
                ent = self.store.get(kk)
                if ent is None:
                    if len(self.store) >= self.max_states:
                        raise AnalysisBroken('state explosion in %s machine exploration' % self.which)
                    if len(posts) == 1:
                        j = posts[0]
                    else:
                        j = it.join(posts, 'step', None, namefn=self.fname)
                        j.stack = ()
                        self._gc(j)
                    self.store[kk] = [j, 1]
                    pending.add(kk)
                    continue
                old, visits = ent
                posts = [c for c in posts if not it.same_state(old, c)]
                if not posts:
                    continue
                self.stats['joins'] += 1
                j = it.join([old] + posts, 'step', None, widen=(visits >= 2), prev=old, namefn=self.fname, hard=(visits >= 10))
                j.stack = ()
                self._gc(j)
                if it.same_state(old, j):
                    continue
                ent[0] = j
                ent[1] = visits + 1
                pending.add(kk)
            if dbg:
                print('  tjoin', round(time.time() - t2, 1), end='')
                print('  round', rounds, 'store', len(self.store), 'pending', len(pending), round(time.time() - t1, 1), 's', flush=True)
        self.stats['time'] = time.time() - t0
        self.stats['rounds'] = rounds
        return self

    def _pmap(self, fn, items):
        """run fn over items in forked workers (the explorer is inherited, only results are pickled)"""
        global _EX
        import os
        import sys
        sys.setrecursionlimit(100000)
        nproc = int(os.environ.get('CATSA_JOBS', '0') or 0) or min(16, os.cpu_count() or 1)
        if nproc <= 1 or len(items) < 3:
            _EX = self
            return [fn(k) for k in items]
        import multiprocessing as mp
        _EX = self
        ctx = mp.get_context('fork')
        # heavy states first so that the tail of the round is short
        with ctx.Pool(min(nproc, len(items))) as pool:
            return pool.map(fn, items, chunksize=1)

    def collect(self):
        """final pass over the fixpoint: transitions with their effect graphs"""
        self.transitions = []
        self.env_actions()
        for res in self._pmap(_worker_collect, list(self.store.keys())):
            for t in res:
                # the state the step started from: the stored one, or that after the environment's action
                t['pre'] = t.get('pre_env') or self.store[t['from_key']][0]
                self.transitions.append(t)
        return self.transitions
