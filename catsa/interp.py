"""Path-sensitive abstract interpreter over the clang AST of cat.c.

Integer values are linear forms (lin.Lin) over named atoms, pointers are tagged
tuples, the path condition is a lin.Facts store.  Control flow is interpreted
structurally (the unit has no goto); every construct may fork the path.  Loops
are solved by a join/widen fixpoint with canonical join atoms.  Nothing is
executed concretely: inputs, descriptor contents and callback results are
atoms constrained only by their C type and by the branches taken.

Everything a rule may want to know is appended to the path's trace as an
event (dict); obligations (bounds, overflow, null) are events with a verdict.
"""
import os
import re
import sys
from .lin import Lin, Facts, INF
from .frontend import AnalysisBroken, node_pos

sys.setrecursionlimit(20000)

NULL = ('null',)
TOP = ('top',)
SELF = ('self',)


THRESHOLDS = sorted(set(list(range(0, 9)) + [127, 255, 65535, (1 << 31) - 1, (1 << 32) - 1, (1 << 63) - 1,
                                              (1 << 64) - 1]))
NEG_THRESHOLDS = sorted(set([-x for x in THRESHOLDS] + [-129, -32769, -(1 << 31) - 1]))


def widen_hi(v, tmax):
    for t in THRESHOLDS:
        if t >= v:
            return min(t, tmax)
    return tmax


def widen_lo(v, tmin):
    for t in reversed(NEG_THRESHOLDS):
        if t <= v:
            return max(t, tmin)
    return tmin


def combine_iv_ex(facts_list):
    """set-precise union of the per-atom value sets of several fact stores"""
    atoms = set()
    for f in facts_list:
        atoms.update(f.iv.keys())
        atoms.update(f.ex.keys())
    iv, ex = {}, {}
    for a in atoms:
        small = True
        U = set()
        lo, hi = INF, -INF
        for f in facts_list:
            l, h = f.iv.get(a, (-INF, INF))
            lo, hi = min(lo, l), max(hi, h)
            if small and l != -INF and h != INF and h - l <= 64:
                U.update(x for x in range(l, h + 1) if x not in f.ex.get(a, ()))
            else:
                small = False
        if small and U:
            lo, hi = min(U), max(U)
            iv[a] = (lo, hi)
            e = frozenset(x for x in range(lo, hi + 1) if x not in U)
            if e:
                ex[a] = e
            continue
        if (lo, hi) != (-INF, INF):
            iv[a] = (lo, hi)
        pts = set()
        for f in facts_list:
            pts.update(f.ex.get(a, ()))
        keep = set()
        for p_ in pts:
            ok = True
            for f in facts_list:
                l, h = f.iv.get(a, (-INF, INF))
                if not (p_ in f.ex.get(a, ()) or p_ < l or p_ > h):
                    ok = False
                    break
            if ok and lo <= p_ <= hi:
                keep.add(p_)
        if keep:
            ex[a] = frozenset(keep)
    return iv, ex


class Unsupported(AnalysisBroken):
    pass


def is_lin(v):
    return isinstance(v, Lin)


class TN:
    """node of the effect graph: one event, or a merge point (ev None) with several predecessors"""
    __slots__ = ('ev', 'preds')

    def __init__(self, ev, preds):
        self.ev = ev
        self.preds = preds


def trace_events(tn):
    """every event reachable backwards from node tn (each once), in no particular order"""
    seen = set()
    out = []
    stack = [tn]
    while stack:
        t = stack.pop()
        if t is None or id(t) in seen:
            continue
        seen.add(id(t))
        if t.ev is not None:
            out.append(t.ev)
        stack.extend(t.preds)
    return out


def trace_count(tn, pred):
    """(min, max) number of events satisfying pred along the paths ending at tn"""
    memo = {}
    stack = [(tn, False)]
    while stack:
        t, done = stack.pop()
        if t is None or id(t) in memo:
            continue
        if not done:
            stack.append((t, True))
            for p in t.preds:
                if p is not None and id(p) not in memo:
                    stack.append((p, False))
            continue
        lo, hi = None, None
        for p in t.preds:
            a, b = (0, 0) if p is None else memo[id(p)]
            lo = a if lo is None else min(lo, a)
            hi = b if hi is None else max(hi, b)
        if lo is None:
            lo = hi = 0
        if t.ev is not None and pred(t.ev):
            lo += 1
            hi += 1
        memo[id(t)] = (lo, hi)
    return memo[id(tn)] if tn is not None else (0, 0)


def trace_paths(tn, limit=20000, keep=None):
    """all event sequences (lists, oldest first) ending at tn, restricted to the events satisfying
    `keep`; sequences that agree on the kept events are enumerated once"""
    memo = {}
    evs = {}
    stack = [(tn, False)]
    while stack:
        t, done = stack.pop()
        if t is None or id(t) in memo:
            continue
        if not done:
            stack.append((t, True))
            for p in t.preds:
                if p is not None and id(p) not in memo:
                    stack.append((p, False))
            continue
        res = set()
        mine = ()
        if t.ev is not None and (keep is None or keep(t.ev)):
            evs[id(t.ev)] = t.ev
            mine = (id(t.ev),)
        for p in (t.preds or (None,)):
            for seq in (memo[id(p)] if p is not None else ((),)):
                res.add(seq + mine)
                if len(res) > limit:
                    raise AnalysisBroken('effect graph has too many distinct paths')
        memo[id(t)] = res
    if tn is None:
        return [[]]
    return [[evs[i] for i in seq] for seq in memo[id(tn)]]


class State:
    __slots__ = ('mem', 'facts', 'pnull', 'ghost', 'trace', 'stack', 'prov', 'dead')

    def __init__(self):
        self.mem = {}
        self.facts = Facts()
        self.pnull = {}
        self.ghost = {}
        self.trace = None
        self.stack = ()
        self.prov = {}     # atom -> provenance (where a loaded byte came from)
        self.dead = False

    def copy(self):
        s = State.__new__(State)
        s.mem = dict(self.mem)
        s.facts = self.facts.copy()
        s.pnull = dict(self.pnull)
        s.ghost = dict(self.ghost)
        s.trace = self.trace
        s.stack = self.stack
        s.prov = dict(self.prov)
        s.dead = False
        return s

    def ev(self, k_, node=None, **kw):
        e = {'k': k_, 'fn': self.stack[-1] if self.stack else None, 'stack': self.stack}
        if node is not None:
            e['line'] = node_pos(node)[1]
        e.update(kw)
        self.trace = TN(e, (self.trace,))
        return e

    def events(self):
        return trace_events(self.trace)


def lin_repr(l):
    return repr(l)


class Interp:
    def __init__(self, prog, model):
        self.prog = prog
        self.model = model          # environment model: initial memory, callbacks, capacities, hooks
        self.max_paths = 200000
        self.npaths = 0
        self.loop_iters = {}
        self.stats = {'calls': 0, 'forks': 0, 'loops': 0, 'stmts': 0}
        self._switch_cache = {}
        self.atom_range = {}
        self.unroll = 1
        self.pin_names = False

    # ------------------------------------------------------------------ types
    def itype(self, node_or_type):
        t = node_or_type.get('type', node_or_type) if isinstance(node_or_type, dict) else node_or_type
        return self.prog.int_type(t)

    def type_range(self, t):
        it = self.prog.int_type(t)
        if it is None:
            return (-INF, INF)
        bits, signed = it
        q = t.get('desugaredQualType', t.get('qualType')) if isinstance(t, dict) else t
        if q and q.replace('const ', '').strip() in ('bool', '_Bool'):
            return (0, 1)
        if signed:
            return (-(1 << (bits - 1)), (1 << (bits - 1)) - 1)
        return (0, (1 << bits) - 1)

    def _pin(self, l, s):
        """with pin_names (small-scope runs over pinned descriptors): an index whose atoms all have a
        single possible value is named by that value"""
        if not self.pin_names or not is_lin(l) or l.is_const():
            return l
        sub = {}
        for a, c in l.terms:
            iv = s.facts.iv.get(a)
            if iv is not None and iv[0] == iv[1]:
                sub[a] = Lin.c(iv[0])
        return l.subst(sub) if sub else l

    def fresh(self, st, name, t=None, rng=None):
        """atom with a type-derived interval (intersected with an existing one)"""
        lo, hi = rng if rng is not None else (self.type_range(t) if t is not None else (-INF, INF))
        if name not in self.atom_range:
            self.atom_range[name] = (lo, hi)
        old = st.facts.iv.get(name)
        if old is not None:
            lo, hi = max(lo, old[0]), min(hi, old[1])
        if (lo, hi) != (-INF, INF):
            st.facts.iv[name] = (lo, hi)
        return Lin.atom(name)

    # ------------------------------------------------------------ entry point
    def run_function(self, name, st, args):
        fn = self.prog.functions.get(name)
        if fn is None:
            raise AnalysisBroken('function %s not found' % name)
        return self.call_fn(fn, st, args, None)

    def call_fn(self, fn, st, args, node):
        self.stats['calls'] += 1
        if fn['name'] in st.stack:
            raise Unsupported('recursion through %s' % fn['name'])
        depth = len(st.stack)
        st = st.copy() if False else st
        st.stack = st.stack + (fn['name'],)
        params = fn['_params']
        if len(params) != len(args):
            raise Unsupported('arity mismatch calling %s' % fn['name'])
        for p, a in zip(params, args):
            self.prog.decl_by_id.setdefault(p['id'], p)
            st.mem[('L', depth, p['id'])] = a
        st.ev('enter', node, name=fn['name'], args=list(args))
        outs = []
        for s, sig in self.exec_stmt(fn['_body'], st):
            rv = None
            if sig is not None:
                if sig[0] == 'return':
                    rv = sig[1]
                else:
                    raise Unsupported('%s leaves function %s' % (sig[0], fn['name']))
            # pop frame
            for k in [k for k in s.mem if k[0] == 'L' and k[1] >= depth]:
                del s.mem[k]
            for k in [k for k in s.ghost if isinstance(k, tuple) and k and k[0] == 'arr' and k[1][1] >= depth]:
                del s.ghost[k]
            s.ev('exit', None, name=fn['name'], ret=rv)
            s.stack = s.stack[:-1]
            outs.append((s, rv))
        return self.merge(outs)

    def merge(self, outs):
        """merge paths whose abstract state (memory, nullness, ghost) and result are equal;
        facts are joined, the effect graph gets a merge node"""
        if len(outs) < 2:
            return outs
        groups = {}
        order = []
        for s, rv in outs:
            try:
                # paths that decided differently about a variable's access mode are kept apart:
                # the access-control rules (C08) correlate effects with that decision
                acc = self._part_key(s)
                key = (self._vkey(rv), frozenset(s.mem.items()), frozenset(s.pnull.items()), frozenset(s.ghost.items()), s.stack, acc)
            except TypeError:
                key = id(s)
            if key not in groups:
                groups[key] = []
                order.append(key)
            groups[key].append((s, rv))
        res = []
        for key in order:
            g = groups[key]
            if len(g) == 1:
                res.append(g[0])
                continue
            states = [x[0] for x in g]
            r = states[0].copy()
            f = r.facts
            f.iv, f.ex = combine_iv_ex([st.facts for st in states])
            ub = {}
            keys = set()
            for st in states:
                keys.update(st.facts.ub.keys())
            for k in keys:
                best = -INF
                for st in states:
                    u = st.facts.ub.get(k)
                    if u is None:
                        u = st.facts.upper(Lin(k, 0), 2)
                    best = max(best, u)
                    if best == INF:
                        break
                if best != INF and f.bounds(Lin(k, 0))[1] > best:
                    ub[k] = best
            f.ub = ub
            r.prov = {a: p for a, p in states[0].prov.items() if all(st.prov.get(a) == p for st in states)}
            r.trace = TN(None, tuple(st.trace for st in states))
            res.append((r, g[0][1]))
        return res

    def _vkey(self, v):
        return v

    # -------------------------------------------------------------- statements
    def exec_stmt(self, n, st):
        """-> list of (state, signal); signal None | ('break',) | ('continue',) | ('return', value)"""
        k = n['kind']
        self.stats['stmts'] += 1
        m = getattr(self, 's_' + k, None)
        if m is not None:
            return m(n, st)
        # expression statement
        return [(s, None) for s, _ in self.eval(n, st)]

    def s_CompoundStmt(self, n, st):
        cur = [(st, None)]
        for c in n.get('inner', ()):
            nxt = []
            for s, sig in cur:
                if sig is not None:
                    nxt.append((s, sig))
                else:
                    nxt.extend(self.exec_stmt(c, s))
            cur = nxt
        return cur

    def s_NullStmt(self, n, st):
        return [(st, None)]

    def s_DeclStmt(self, n, st):
        cur = [st]
        for d in n.get('inner', ()):
            if d['kind'] != 'VarDecl':
                continue
            self.prog.decl_by_id.setdefault(d['id'], d)
            nxt = []
            for s in cur:
                depth = len(s.stack) - 1
                loc = ('L', depth, d['id'])
                init = [c for c in d.get('inner', ()) if 'kind' in c and c['kind'] not in ('FullComment',)]
                q = d['type'].get('desugaredQualType', d['type']['qualType'])
                if '[' in q and q.endswith(']'):
                    # local array: content unknown
                    s.mem[loc] = ('arr', loc, int(q[q.rindex('[') + 1:-1]))
                    nxt.append(s)
                    continue
                if init:
                    for s2, v in self.eval(init[0], s):
                        s2.mem[loc] = v
                        nxt.append(s2)
                else:
                    s.mem[loc] = ('uninit', d.get('name'))
                    nxt.append(s)
            cur = nxt
        return [(s, None) for s in cur]

    def s_ReturnStmt(self, n, st):
        inner = n.get('inner', ())
        if not inner:
            return [(st, ('return', None))]
        return [(s, ('return', v)) for s, v in self.eval(inner[0], st)]

    def s_BreakStmt(self, n, st):
        return [(st, ('break',))]

    def s_ContinueStmt(self, n, st):
        return [(st, ('continue',))]

    def s_IfStmt(self, n, st):
        inner = n['inner']
        cond, then = inner[0], inner[1]
        els = inner[2] if len(inner) > 2 else None
        out = []
        ts, fs = self.branch(cond, st)
        for s in ts:
            out.extend(self.exec_stmt(then, s))
        for s in fs:
            if els is not None:
                out.extend(self.exec_stmt(els, s))
            else:
                out.append((s, None))
        return out

    def _switch_items(self, body):
        key = body['id']
        r = self._switch_cache.get(key)
        if r is not None:
            return r
        items = []   # (labels or None, stmt)  labels: list of int / 'default'
        if body['kind'] != 'CompoundStmt':
            raise Unsupported('switch body is not a compound statement')
        for c in body.get('inner', ()):
            labels = []
            while c['kind'] in ('CaseStmt', 'DefaultStmt'):
                if c['kind'] == 'CaseStmt':
                    labels.append(self.const_eval(c['inner'][0]))
                    c = c['inner'][-1]
                else:
                    labels.append('default')
                    c = c['inner'][-1]
            items.append((labels or None, c))
        self._switch_cache[key] = items
        return items

    def s_SwitchStmt(self, n, st):
        cond, body = n['inner'][0], n['inner'][-1]
        items = self._switch_items(body)
        all_labels = [l for ls, _ in items if ls for l in ls if l != 'default']
        has_default = any(ls and 'default' in ls for ls, _ in items)
        out = []
        for s0, v in self.eval(cond, st):
            if not is_lin(v):
                raise Unsupported('switch on non-integer')
            # partition: each label value, and the rest
            targets = []   # (state, start index or None)
            rest = s0
            for idx, (ls, _) in enumerate(items):
                if not ls:
                    continue
                for l in ls:
                    if l == 'default':
                        continue
                    e = rest.facts.eq(v, l)
                    if e is False:
                        continue
                    if e is True:
                        targets.append((rest, idx, l))
                        rest = None
                        break
                    s1 = rest.copy()
                    if s1.facts.assume_eq(v, l):
                        self.stats['forks'] += 1
                        if self.model.refined(s1, v, self) is not False:
                            targets.append((s1, idx, l))
                    if not rest.facts.assume_ne(v, l):
                        rest = None
                        break
                    if self.model.refined(rest, v, self) is False:
                        rest = None
                        break
                if rest is None:
                    break
            if rest is not None:
                didx = None
                for idx, (ls, _) in enumerate(items):
                    if ls and 'default' in ls:
                        didx = idx
                targets.append((rest, didx, 'default'))
            for s1, idx, lab in targets:
                s1.ev('switch', n, label=lab, value=v, has_default=has_default)
                if idx is None:
                    out.append((s1, None))
                    continue
                cur = [(s1, None)]
                for _, stmt in items[idx:]:
                    nxt = []
                    for s, sig in cur:
                        if sig is not None:
                            nxt.append((s, sig))
                        else:
                            nxt.extend(self.exec_stmt(stmt, s))
                    cur = nxt
                    if all(sig is not None for _, sig in cur):
                        break
                for s, sig in cur:
                    if sig is not None and sig[0] == 'break':
                        sig = None
                    out.append((s, sig))
        return out

    # ---- loops
    def s_WhileStmt(self, n, st):
        return self._loop(n, st, None, n['inner'][0], None, n['inner'][-1])

    def s_ForStmt(self, n, st):
        init, _, cond, inc, body = n['inner']
        cur = [st]
        if init:
            cur = [s for s, sig in self.exec_stmt(init, st)]
        out = []
        for s in cur:
            out.extend(self._loop(n, s, None, cond if cond else None, inc if inc else None, body))
        return out

    def s_DoStmt(self, n, st):
        # do B while (C)  ==  B; while (C) B   (continue inside B goes to the test in both)
        body, cond = n['inner'][0], n['inner'][1]
        out = []
        for s, sig in self.exec_stmt(body, st):
            if sig is None or sig[0] == 'continue':
                out.extend(self._loop(n, s, None, cond, None, body))
            elif sig[0] == 'break':
                out.append((s, None))
            else:
                out.append((s, sig))
        return out

    def s_GotoStmt(self, n, st):
        raise Unsupported('goto')

    def s_LabelStmt(self, n, st):
        raise Unsupported('label')

    def _loop(self, n, st, _unused, cond, inc, body):
        """join/widen fixpoint at the loop head; returns exit states"""
        self.stats['loops'] += 1
        tag = 'lp%s' % node_pos(n)[1]
        line = node_pos(n)[1]

        def one_pass(h):
            """run one iteration from head h: returns (back-edge states, exit list)"""
            ex = []
            h = h.copy()
            if cond is not None:
                ts, fs = self.branch(cond, h)
            else:
                ts, fs = [h], []
            for s in fs:
                ex.append((s, None))
            back = []
            for s in ts:
                for s2, sig in self.exec_stmt(body, s):
                    if sig is None or sig[0] == 'continue':
                        if inc is not None:
                            for s3, _ in self.eval(inc, s2):
                                back.append(s3)
                        else:
                            back.append(s2)
                    elif sig[0] == 'break':
                        ex.append((s2, None))
                    else:
                        ex.append((s2, sig))
            return back, ex

        # the first iteration is peeled: exits of the entry state are exact
        st.ev('loop', n, tag=tag)
        base = st.trace
        exits = []
        back, ex0 = one_pass(st)
        exits.extend(ex0)
        # optional exact unrolling of further iterations (used for exhaustive small-state enumeration)
        peeled = 1
        while back and peeled < self.unroll:
            peeled += 1
            nb = []
            for b in back:
                b2, e2 = one_pass(b)
                nb.extend(b2)
                exits.extend(e2)
            back = nb
            if len(back) > 256:
                break
        if not back:
            return exits
        # steady-state heads, kept apart by what the path has decided about access modes
        # (disjunctive invariant: the access-control rules need that correlation)
        pending = {}
        for b in back:
            pending.setdefault(self._part_key(b), []).append(b)
        heads = {}
        firsts = {}
        rounds = 0
        while pending:
            rounds += 1
            pk, arrivals = pending.popitem()
            # the budget is per disjunct (each needs its own widening sequence); the number of
            # disjuncts is bounded by the access-mode partitions a path can have decided
            if heads.get(('n', pk), 0) > 40 or rounds > 600:
                raise Unsupported('loop at line %s does not stabilise' % line)
            cur = heads.get(pk)
            if cur is None:
                firsts[pk] = tuple(s.trace for s in arrivals)
            it = heads.get(('n', pk), 0) + 1
            heads[('n', pk)] = it
            cand = arrivals if cur is None else [cur] + arrivals
            # disjuncts feed each other, so a head is revisited for arrivals that are new only because
            # another head moved: the hard (fact-dropping) widening waits correspondingly longer
            nparts = sum(1 for k_ in heads if not (isinstance(k_, tuple) and k_ and k_[0] == 'n'))
            new = self.join(cand, tag, base, widen=(it >= 2), prev=cur, fast=(it >= 7), hard=(it >= 7 + 5 * max(0, nparts - 1)),
                            banned=heads.setdefault(('n', 'banned', pk), set()))
            if cur is not None and self.same_state(cur, new):
                continue
            if os.environ.get('CATSA_LOOPDBG') and cur is not None and rounds > 12:
                self._loopdbg(line, rounds, pk, cur, new)
            heads[pk] = new
            bk, _ = one_pass(new)
            for b in bk:
                pending.setdefault(self._part_key(b), []).append(b)
        for pk, cur in heads.items():
            if isinstance(pk, tuple) and pk and pk[0] == 'n':
                continue
            # final passes from the invariant: A collects the effects of continuing iterations,
            # B produces the exits, whose effect graph contains those of A as optional predecessors
            cur.trace = TN(None, firsts[pk])
            backA, _ = one_pass(cur)
            cur.trace = TN(None, (cur.trace,) + tuple(s.trace for s in backA))
            _, exf = one_pass(cur)
            exits.extend(exf)
        return exits

    def _loopdbg(self, line, rounds, pk, a, b):
        import sys
        w = sys.stderr.write
        w('LOOPDBG line %s round %s pk %s\n' % (line, rounds, pk))
        for k in set(a.mem) | set(b.mem):
            if a.mem.get(k) != b.mem.get(k):
                w('  mem %s: %s -> %s\n' % (k, a.mem.get(k), b.mem.get(k)))
        for k in set(a.ghost) | set(b.ghost):
            if a.ghost.get(k) != b.ghost.get(k):
                w('  ghost %s: %s -> %s\n' % (k, a.ghost.get(k), b.ghost.get(k)))
        for k in set(a.pnull) | set(b.pnull):
            if a.pnull.get(k) != b.pnull.get(k):
                w('  pnull %s: %s -> %s\n' % (k, a.pnull.get(k), b.pnull.get(k)))
        for nm in ('iv', 'ub', 'ex'):
            da, db = getattr(a.facts, nm), getattr(b.facts, nm)
            for k in set(da) | set(db):
                if da.get(k) != db.get(k):
                    w('  %s %s: %s -> %s\n' % (nm, k, da.get(k), db.get(k)))

    def _part_key(self, s):
        # the access mode of the variable the machine is working on (canonical object names of the explorer)
        # (the key is the set of modes still possible, however the path came to know it)
        out = []
        for a in ('VAR.access', 'UVAR.access'):
            if a not in s.facts.iv:
                continue
            lo, hi = s.facts.iv[a]
            ex = s.facts.ex.get(a) or ()
            if hi - lo <= 8:
                out.append((a, tuple(x for x in range(lo, hi + 1) if x not in ex)))
            else:
                out.append((a, (lo, hi), tuple(sorted(ex))))
        return tuple(out)

    # ---- join -------------------------------------------------------------
    def same_state(self, a, b):
        if a.mem != b.mem or a.pnull != b.pnull or a.ghost != b.ghost:
            return False
        fa, fb = a.facts, b.facts
        if fa.ex != fb.ex:
            return False
        if fa.ub != fb.ub:
            # relations stored in one and only derivable in the other are the same knowledge
            for f1, f2 in ((fa, fb), (fb, fa)):
                for k, c in f1.ub.items():
                    c2 = f2.ub.get(k)
                    if c2 is not None and c2 <= c:
                        continue
                    if f2.upper(Lin(k, 0), 2, c) > c:
                        return False
        if fa.iv == fb.iv:
            return True
        ar = self.atom_range
        for x in set(fa.iv) | set(fb.iv):
            d = ar.get(x, (-INF, INF))
            if fa.iv.get(x, d) != fb.iv.get(x, d):
                return False
        return True

    def join(self, states, tag, base, widen=False, prev=None, namefn=None, force=(), hard=False, fast=False, banned=None):
        """upper bound of path states.  Integer locations whose values differ are
        abstracted to canonical atoms (namefn(loc), default J:<tag>:<loc>); each
        state's facts are re-expressed over those atoms (pivot substitution), and
        only facts entailed by every state survive."""
        if namefn is None:
            namefn = lambda k: 'J:%s:%s' % (tag, self._locname(k))
        # identical abstract states (paths that differ only in their effects) are joined once
        if len(states) > 2:
            seen_sig = set()
            uniq = []
            for s_ in states:
                try:
                    sig = (frozenset(s_.mem.items()), frozenset(s_.facts.iv.items()), frozenset(s_.facts.ub.items()),
                           frozenset(s_.facts.ex.items()), frozenset(s_.pnull.items()), frozenset(s_.ghost.items()))
                except TypeError:
                    sig = id(s_)
                if sig in seen_sig and s_ is not prev:
                    continue
                seen_sig.add(sig)
                uniq.append(s_)
            states = uniq
        s0 = states[0]
        res = State()
        res.stack = s0.stack
        res.trace = base
        # ghost entries that hold an index (a Lin) are joined like memory locations
        mems = []
        for s in states:
            m = dict(s.mem)
            for gk, gv in s.ghost.items():
                if is_lin(gv):
                    m[('G', gk)] = gv
            mems.append(m)
        keys = set()
        for m in mems:
            keys.update(m.keys())
        diff = {}
        ptrdiff = []
        for k in keys:
            vals = [m.get(k) for m in mems]
            v0 = vals[0]
            if all(v == v0 for v in vals) and not (k in force and is_lin(v0)):
                res.mem[k] = v0
            elif all(is_lin(v) for v in vals):
                diff[k] = namefn(k)
            elif any(v is None for v in vals):
                continue
            else:
                ptrdiff.append(k)
        # a location with equal values that mention an atom about to be redefined must be abstracted too
        names = set(diff.values())
        changed = True
        while changed:
            changed = False
            for k, v in list(res.mem.items()):
                if is_lin(v) and any(a in names for a, _ in v.terms) and k not in diff:
                    if v == Lin.atom(namefn(k)) and not any(s.mem[k2] != Lin.atom(namefn(k)) for s in states for k2 in (k,)):
                        pass
                    nm = namefn(k)
                    # the canonical atom of this very location, unchanged everywhere: keep
                    if v == Lin.atom(nm) and nm not in names:
                        continue
                    if v == Lin.atom(nm):
                        # same name is being redefined by another location: cannot happen (names are per location)
                        continue
                    diff[k] = nm
                    names.add(nm)
                    del res.mem[k]
                    changed = True
        for k in ptrdiff:
            res.mem[k] = self._join_ptr([m.get(k) for m in mems], states, tag, k, res)
        # per-state abstraction
        abst = []
        for s, m in zip(states, mems):
            f = s.facts.copy()
            sub = {}
            used = set()
            for k, name in diff.items():
                v = m[k]
                pn = name + "'"
                lo, hi = s.facts.lower(v, 2), s.facts.upper(v, 2)
                tlo, thi = self._loc_type_range(k)
                lo, hi = max(lo, tlo), min(hi, thi)
                if (lo, hi) != (-INF, INF):
                    f.iv[pn] = (lo, hi)
                sg = v.single()
                if sg and sg[1] == 1 and sg[0] in s.facts.ex:
                    f.ex[pn] = frozenset(x + sg[2] for x in s.facts.ex[sg[0]])
                # express the value through the atoms already solved for, then solve for one more
                w = v.subst(sub)
                piv = None
                for a, c in w.terms:
                    if a == name and c in (1, -1):
                        piv = (a, c)
                        break
                if piv is None:
                    for a, c in w.terms:
                        if c in (1, -1) and not a.endswith("'") and a not in sub and self._volatile_atom(a):
                            piv = (a, c)
                            break
                if piv is None:
                    # nothing left to solve for: remember the definition itself
                    dn_ = set(diff.values())
                    if 1 <= len(w.terms) <= 2 and not any(a in sub or a in dn_ for a, _ in w.terms):
                        d = Lin.atom(pn).sub(w)
                        f.ub[d.terms] = -d.const
                        d2 = d.scale(-1)
                        f.ub[d2.terms] = -d2.const
                    continue
                a, c = piv
                rest = w.sub(Lin.atom(a, c))
                one = {a: Lin.atom(pn).sub(rest).scale(c)}
                for a0 in list(sub.keys()):
                    sub[a0] = sub[a0].subst(one)
                sub[a] = one[a]
            for key, c in list(s.facts.ub.items()):
                if not any(a in sub for a, _ in key):
                    continue
                g = Lin(key, 0).subst(sub)
                cc = c - g.const
                old = f.ub.get(g.terms)
                if g.terms and (old is None or cc < old):
                    f.ub[g.terms] = cc
            dying = set(diff.values()) | set(sub.keys())
            f.project_out(lambda a: a in dying)
            abst.append(f)
        # combine
        rf = res.facts
        rf.iv, rf.ex = combine_iv_ex(abst)
        fast = fast or hard
        if widen and prev is not None:
            dn = set(n_ + "'" for n_ in diff.values())
            for a in list(rf.iv.keys()):
                if a in dn or a not in prev.facts.iv:
                    continue
                plo, phi = prev.facts.iv[a]
                lo, hi = rf.iv[a]
                tlo, thi = self.atom_range.get(a, (-INF, INF))
                if lo < plo:
                    lo = tlo if fast else widen_lo(lo, tlo)
                if hi > phi:
                    hi = thi if fast else widen_hi(hi, thi)
                if (lo, hi) != (-INF, INF):
                    rf.iv[a] = (lo, hi)
                else:
                    del rf.iv[a]
            for k, name in diff.items():
                pv = prev.mem.get(k) if k[0] != 'G' else prev.ghost.get(k[1])
                if is_lin(pv) and pv == Lin.atom(name) and (name + "'") in rf.iv:
                    plo, phi = prev.facts.iv.get(name, (-INF, INF))
                    lo, hi = rf.iv[name + "'"]
                    tlo, thi = self._loc_type_range(k)
                    if lo < plo:
                        lo = tlo if fast else widen_lo(lo, tlo)
                    if hi > phi:
                        hi = thi if fast else widen_hi(hi, thi)
                    if (lo, hi) != (-INF, INF):
                        rf.iv[name + "'"] = (lo, hi)
                    else:
                        del rf.iv[name + "'"]
        cands = set()
        for f in abst:
            cands.update(f.ub.keys())
        # template candidates  x - y <= c  for an abstracted location x and an atom y whose own
        # interval differs between the states (a relation hidden in intervals when x was constant)
        if diff and len(abst) > 1:
            vary = []
            common = set(abst[0].iv.keys())
            for f in abst[1:]:
                common &= set(f.iv.keys())
            for a in common:
                if a.endswith("'"):
                    continue
                v0 = abst[0].iv[a]
                if any(f.iv[a] != v0 for f in abst[1:]):
                    vary.append(a)
            dn = sorted(set(diff.values()))
            # atoms related by a stored fact to the value a location had in some state
            for s_, m_ in zip(states, mems):
                for k, name in diff.items():
                    va = set(a for a, _ in m_[k].terms)
                    if not va:
                        continue
                    rel = set()
                    for key in s_.facts.ub:
                        if len(key) <= 3 and any(a in va for a, _ in key):
                            rel.update(a for a, _ in key if a not in va)
                    for r in sorted(rel)[:6]:
                        if r in dn or r.endswith("'"):
                            continue
                        l = Lin.atom(name + "'").sub(Lin.atom(r))
                        cands.add(l.terms)
                        cands.add(l.scale(-1).terms)
            if len(vary) <= 6:
                for name in dn:
                    for y in vary:
                        l = Lin.atom(name + "'").sub(Lin.atom(y))
                        cands.add(l.terms)
                        cands.add(l.scale(-1).terms)
            if len(dn) <= 5:
                for i_, x in enumerate(dn):
                    for y in dn[i_ + 1:]:
                        l = Lin.atom(x + "'").sub(Lin.atom(y + "'"))
                        cands.add(l.terms)
                        cands.add(l.scale(-1).terms)
        unprime = lambda a: a[:-1] if a.endswith("'") else a
        for terms in cands:
            if banned and Lin(terms, 0).rename(unprime).terms in banned:
                continue
            best = -INF
            l = Lin(terms, 0)
            for f in abst:
                u = f.ub.get(terms)
                if u is None:
                    u = f.upper(l, 2)
                if u > best:
                    best = u
                if best == INF:
                    break
            if best != INF and best < (1 << 62) and rf.bounds(l)[1] > best:
                rf.ub[terms] = best
        if widen and prev is not None:
            ren0 = {name: name + "'" for name in diff.values()}
            for terms in list(rf.ub.keys()):
                pt = Lin(terms, 0).rename(lambda a: a[:-1] if a.endswith("'") else a).terms
                pc = prev.facts.ub.get(pt)
                if pc is None:
                    pu = prev.facts.upper(Lin(pt, 0))
                    pc = pu if pu != INF else None
                if pc is not None and rf.ub[terms] > pc:
                    w = widen_hi(rf.ub[terms], INF) if rf.ub[terms] >= 0 else -widen_lo(-rf.ub[terms], -INF) if False else rf.ub[terms]
                    if rf.ub[terms] >= 0:
                        w = widen_hi(rf.ub[terms], INF)
                    else:
                        # negative constants grow towards 0 through the negated thresholds
                        w = -max((t for t in THRESHOLDS if t <= -rf.ub[terms]), default=0)
                    if w == INF or fast:
                        del rf.ub[terms]
                        if banned is not None and fast:
                            # a relation given up by the accelerated widening stays given up (it may
                            # be re-derivable from others; storing it again would oscillate)
                            banned.add(pt)
                    else:
                        rf.ub[terms] = w
        if hard and prev is not None:
            # enforced monotonicity: the result may not be stronger than the previous head anywhere
            pf = prev.facts
            unp = lambda a: a[:-1] if a.endswith("'") else a
            for a in list(rf.iv.keys()):
                pa = unp(a)
                if pa not in pf.iv:
                    d = self.atom_range.get(pa)
                    if d is None or d == (-INF, INF):
                        del rf.iv[a]
                    else:
                        rf.iv[a] = d
                else:
                    lo, hi = rf.iv[a]
                    plo, phi = pf.iv[pa]
                    rf.iv[a] = (min(lo, plo), max(hi, phi))
            for a in list(rf.ex.keys()):
                keep = rf.ex[a] & pf.ex.get(unp(a), frozenset())
                if keep:
                    rf.ex[a] = keep
                else:
                    del rf.ex[a]
            for terms in list(rf.ub.keys()):
                pt = Lin(terms, 0).rename(unp).terms
                if pt not in pf.ub:
                    del rf.ub[terms]
                else:
                    rf.ub[terms] = max(rf.ub[terms], pf.ub[pt])
        # astronomically large bounds (left over when a relation tightened an interval that had been
        # widened to the type's range) carry no information and must not keep a fixpoint from closing
        BIG = 1 << 62
        for a, (lo, hi) in list(rf.iv.items()):
            pa = a[:-1] if a.endswith("'") else a
            tr = self.atom_range.get(pa, (-INF, INF))
            nlo = tr[0] if (lo <= -BIG and lo != -INF) else lo
            nhi = tr[1] if (hi >= BIG and hi != INF) else hi
            if nlo > lo:
                nlo = lo
            if nhi < hi:
                nhi = hi
            if (nlo, nhi) != (lo, hi):
                if (nlo, nhi) == (-INF, INF):
                    del rf.iv[a]
                else:
                    rf.iv[a] = (nlo, nhi)
        # primed -> final names
        ren = {name + "'": name for name in diff.values()}
        if ren:
            rf.iv = {ren.get(a, a): v for a, v in rf.iv.items()}
            rf.ex = {ren.get(a, a): v for a, v in rf.ex.items()}
            rf.ub = {Lin(k, 0).rename(lambda a: ren.get(a, a)).terms: v for k, v in rf.ub.items()}
        for k, name in diff.items():
            res.mem[k] = Lin.atom(name)
            # the atom stands for the content of a typed location: its type range is a fact of every
            # state (widening falls back to it instead of to "unknown")
            tr = self._loc_type_range(k)
            if tr != (-INF, INF):
                self.atom_range.setdefault(name, tr)
                lo, hi = rf.iv.get(name, (-INF, INF))
                if lo < tr[0] or hi > tr[1]:
                    rf.iv[name] = (max(lo, tr[0]), min(hi, tr[1]))
        for name, v in s0.pnull.items():
            if all(s.pnull.get(name) == v for s in states):
                res.pnull[name] = v
        gl = {}
        for k in [k for k in res.mem if k[0] == 'G']:
            gl[k[1]] = res.mem.pop(k)
        res.ghost = self.model.join_ghost([s.ghost for s in states], states, res)
        res.ghost.update(gl)
        for a, p in s0.prov.items():
            if all(s.prov.get(a) == p for s in states):
                res.prov[a] = p
        return res

    def _volatile_atom(self, a):
        """atoms that denote per-path unknowns (may be solved for when a location is abstracted);
        descriptor atoms are stable and are never eliminated"""
        return a.startswith(('J:', 'f:', 'B@', 'R@', 'T@', 'U:', 'H@', 'wrap', 'cast', 'ovf'))

    def _locname(self, k):
        if k[0] == 'G':
            return 'g.' + '.'.join(str(x) if not isinstance(x, tuple) else '_'.join(map(str, x)) for x in k[1])
        if k[0] == 'S':
            return '.'.join(str(x) for x in k[1:])
        if k[0] == 'L':
            d = self.prog.decl_by_id.get(k[2])
            return 'L%d.%s' % (k[1], k[2][-5:])
        return repr(k)

    def _loc_type_range(self, k):
        if k[0] == 'G':
            return (0, (1 << 64) - 1)
        t = self.model.loc_type(k)
        if t is None:
            return (-INF, INF)
        return self.type_range(t)

    def _join_ptr(self, vals, states, tag, k, res):
        kinds = set(v[0] for v in vals if isinstance(v, tuple))
        if kinds == {'mem'}:
            regs = set(v[1] for v in vals)
            if len(regs) == 1:
                # same region, differing offsets: join offsets
                name = 'J:%s:%s.off' % (tag, self._locname(k))
                lo, hi = INF, -INF
                for s, v in zip(states, vals):
                    lo, hi = min(lo, s.facts.lower(v[2])), max(hi, s.facts.upper(v[2]))
                if (lo, hi) != (-INF, INF):
                    res.facts.iv[name] = (lo, hi)
                return ('mem', vals[0][1], Lin.atom(name))
        if kinds <= {'obj', 'null'} and 'obj' in kinds:
            name = 'J:%s:%s' % (tag, self._locname(k))
            nn = all(v[0] == 'obj' and s.pnull.get(v[1]) is False for s, v in zip(states, vals))
            if nn:
                res.pnull[name] = False
            return ('obj', name)
        return TOP

    # -------------------------------------------------------------- branching
    def branch(self, cond, st):
        """evaluate a controlling expression -> (states where true, states where false)"""
        ts, fs = [], []
        for s, v in self.eval(cond, st):
            t, f = self.truth(v, s)
            if t is not None:
                ts.append(t)
            if f is not None:
                fs.append(f)
        return ts, fs

    def truth(self, v, s):
        """split state s on v != 0 -> (true state or None, false state or None)"""
        if is_lin(v):
            if v.is_const():
                return (s, None) if v.const != 0 else (None, s)
            e = s.facts.eq(v, 0)
            if e is True:
                return (None, s)
            if e is False:
                return (s, None)
            self.stats['forks'] += 1
            f = s.copy()
            t = s if s.facts.assume_ne(v, 0) else None
            f = f if f.facts.assume_eq(v, 0) else None
            if t is not None and self.model.refined(t, v, self) is False:
                t = None
            return (t, f)
        # pointer truthiness
        isn = self.is_null(v, s)
        if isn is True:
            return (None, s)
        if isn is False:
            return (s, None)
        name = self.ptr_name(v)
        self.stats['forks'] += 1
        f = s.copy()
        if name is not None:
            s.pnull[name] = False
            f.pnull[name] = True
        return (s, f)

    def ptr_name(self, v):
        if isinstance(v, tuple):
            if v[0] in ('obj', 'oarr', 'parr', 'fn'):
                return v[1]
            if v[0] == 'mem':
                return self.model.region_name(v[1])
        return None

    def is_null(self, v, s):
        if v == NULL:
            return True
        if not isinstance(v, tuple):
            return None
        if v[0] in ('self', 'ref', 'arr'):
            return False
        if v[0] == 'top' or v[0] == 'uninit':
            return None
        name = self.ptr_name(v)
        if name is None:
            return False
        if v[0] == 'mem' and not (v[2].is_const() and v[2].const == 0):
            return False
        return s.pnull.get(name)

    # ------------------------------------------------------------ expressions
    def eval(self, n, st):
        """-> list of (state, value)"""
        k = n['kind']
        m = getattr(self, 'e_' + k, None)
        if m is None:
            raise Unsupported('expression kind %s at line %s' % (k, node_pos(n)[1]))
        return m(n, st)

    def e_ParenExpr(self, n, st):
        return self.eval(n['inner'][0], st)

    def e_ConstantExpr(self, n, st):
        return [(st, Lin.c(self.const_eval(n)))]

    def const_eval(self, n):
        """fold a constant expression (case labels, enumerator initialisers)"""
        if 'value' in n and n['kind'] in ('ConstantExpr', 'IntegerLiteral', 'CharacterLiteral'):
            return int(n['value'])
        st = State()
        st.stack = ('<const>',)
        r = self.eval(n['inner'][0] if n['kind'] == 'ConstantExpr' else n, st)
        if len(r) != 1 or not is_lin(r[0][1]) or not r[0][1].is_const():
            raise Unsupported('constant expression does not fold at line %s' % node_pos(n)[1])
        return r[0][1].const

    def e_IntegerLiteral(self, n, st):
        return [(st, Lin.c(int(n['value'])))]

    def e_CharacterLiteral(self, n, st):
        return [(st, Lin.c(int(n['value'])))]

    def e_StringLiteral(self, n, st):
        # value as lvalue array; decays through ArrayToPointerDecay
        return [(st, ('mem', ('lit', self._lit(n)), Lin.c(0)))]

    def _lit(self, n):
        import ast as _ast
        v = n['value']
        try:
            # C string literal -> python bytes-ish str
            return _ast.literal_eval(v if not v.startswith('L') else v[1:])
        except Exception:
            return v

    def e_DeclRefExpr(self, n, st):
        # appears as rvalue only for enumerators and functions
        ref = n['referencedDecl']
        if ref['kind'] == 'EnumConstantDecl':
            return [(st, Lin.c(self.prog.enumerator_by_id[ref['id']][1]))]
        if ref['kind'] == 'FunctionDecl':
            return [(st, ('cfn', ref['id'], ref['name']))]
        # lvalue used directly (e.g. array name) -> treat as lvalue load
        out = []
        for s, lv in self.eval_lv(n, st):
            out.extend(self.load(lv, s, n))
        return out

    def e_ImplicitCastExpr(self, n, st):
        return self._cast(n, st)

    def e_CStyleCastExpr(self, n, st):
        return self._cast(n, st)

    def _cast(self, n, st):
        ck = n.get('castKind')
        sub = n['inner'][0]
        if ck == 'LValueToRValue':
            out = []
            for s, lv in self.eval_lv(sub, st):
                out.extend(self.load(lv, s, sub))
            return out
        if ck == 'ToVoid':
            return [(s, None) for s, _ in self.eval(sub, st)]
        if ck in ('NoOp', 'BitCast', 'FunctionToPointerDecay'):
            if ck == 'BitCast':
                return [(s, self._retarget(v, n)) for s, v in self.eval(sub, st)]
            return self.eval(sub, st)
        if ck == 'ArrayToPointerDecay':
            out = []
            if sub['kind'] == 'StringLiteral':
                return self.eval(sub, st)
            for s, lv in self.eval_lv(sub, st):
                out.append((s, self.decay(lv, s, sub)))
            return out
        if ck == 'NullToPointer':
            return [(s, NULL) for s, _ in self.eval(sub, st)]
        if ck in ('IntegralCast', 'IntegralToBoolean'):
            out = []
            for s, v in self.eval(sub, st):
                if ck == 'IntegralToBoolean':
                    t, f = self.truth(v, s)
                    if t is not None:
                        out.append((t, Lin.c(1)))
                    if f is not None:
                        out.append((f, Lin.c(0)))
                else:
                    out.append((s, self.int_cast(v, n, s)))
            return out
        if ck == 'PointerToBoolean':
            out = []
            for s, v in self.eval(sub, st):
                t, f = self.truth(v, s)
                if t is not None:
                    out.append((t, Lin.c(1)))
                if f is not None:
                    out.append((f, Lin.c(0)))
            return out
        raise Unsupported('cast kind %s at line %s' % (ck, node_pos(n)[1]))

    def _retarget(self, v, n):
        return v

    def int_cast(self, v, n, s):
        """conversion to the integer type of node n"""
        if not is_lin(v):
            if isinstance(v, tuple) and v[0] == 'uninit':
                s.ev('ob', n, ob='uninit', ok=False, what=v[1])
                return self.fresh(s, 'U:%s' % v[1], n['type'])
            raise Unsupported('integral cast of non-integer at line %s' % node_pos(n)[1])
        lo, hi = self.type_range(n['type'])
        vlo, vhi = s.facts.lower(v), s.facts.upper(v)
        if vlo < lo:
            vlo = s.facts.lower(v, 2, lo)
        if vhi > hi:
            vhi = s.facts.upper(v, 2, hi)
        if vlo >= lo and vhi <= hi:
            return v
        if v.is_const():
            bits, signed = self.itype(n)
            c = v.const & ((1 << bits) - 1)
            if signed and c >= (1 << (bits - 1)):
                c -= (1 << bits)
            return Lin.c(c)
        bits, signed = self.itype(n)
        if bits == 64 and not signed and vlo >= 0:
            # same domain assumption as for 64-bit additions: counters do not overflow
            return v
        # value may not fit: result is the wrapped value, a derived atom
        name = 'cast%s%d(%s)' % ('s' if signed else 'u', bits, lin_repr(v))
        s.ev('conv', n, value=v, bits=bits, signed=signed, lo=vlo, hi=vhi)
        return self.fresh(s, name, n['type'])

    def e_UnaryExprOrTypeTraitExpr(self, n, st):
        # sizeof of an integer / pointer type, of a fixed-size array of those, or of an expression of such a type
        # (the operand of sizeof is not evaluated); anything else (records: padding) is not modelled
        if n.get('name') == 'sizeof':
            t = n.get('argType') or ((n.get('inner') or [{}])[0].get('type'))
            sz = self._sizeof(t) if t else None
            if sz is not None:
                return [(st, Lin.c(sz))]
        raise Unsupported('sizeof at line %s' % node_pos(n)[1])

    def _sizeof(self, t):
        q = t.get('desugaredQualType', t.get('qualType')) if isinstance(t, dict) else t
        q = q.strip()
        mm = re.match(r'^(.*?)\s*\[(\d+)\]$', q)
        if mm:
            el = self._sizeof(mm.group(1))
            return None if el is None else el * int(mm.group(2))
        if q.endswith('*'):
            return 8
        it = self.prog.int_type(q)
        if it is not None:
            qq = q.replace('const ', '').strip()
            if qq in ('bool', '_Bool'):
                return 1
            return it[0] // 8
        return None

    def e_ConditionalOperator(self, n, st):
        c, a, b = n['inner']
        out = []
        ts, fs = self.branch(c, st)
        for s in ts:
            out.extend(self.eval(a, s))
        for s in fs:
            out.extend(self.eval(b, s))
        return out

    def e_MemberExpr(self, n, st):
        out = []
        for s, lv in self.eval_lv(n, st):
            out.extend(self.load(lv, s, n))
        return out

    e_ArraySubscriptExpr = e_MemberExpr

    def e_UnaryOperator(self, n, st):
        op = n['opcode']
        sub = n['inner'][0]
        if op == '&':
            out = []
            for s, lv in self.eval_lv(sub, st):
                out.append((s, self.addr_of(lv, s, n)))
            return out
        if op == '*':
            out = []
            for s, lv in self.eval_lv(n, st):
                out.extend(self.load(lv, s, n))
            return out
        if op in ('++', '--'):
            out = []
            post = n.get('isPostfix')
            d = 1 if op == '++' else -1
            for s, lv in self.eval_lv(sub, st):
                for s2, old in self.load(lv, s, sub):
                    if not is_lin(old):
                        # pointer stepping: the same element arithmetic as p + 1 / p - 1 (with its index obligation)
                        try:
                            newp = self.ptr_add(old, Lin.c(d), s2, n)
                        except Unsupported:
                            raise Unsupported('++ on pointer %r at line %s' % (old, node_pos(n)[1]))
                        for s3 in self.store(lv, newp, s2, n):
                            out.append((s3, old if post else newp))
                        continue
                    new = self.arith('+', old, Lin.c(d), n, s2)
                    for s3 in self.store(lv, new, s2, n):
                        out.append((s3, old if post else new))
            return out
        out = []
        for s, v in self.eval(sub, st):
            if op == '!':
                t, f = self.truth(v, s)
                if t is not None:
                    out.append((t, Lin.c(0)))
                if f is not None:
                    out.append((f, Lin.c(1)))
            elif op == '-':
                out.append((s, self.arith('-', Lin.c(0), v, n, s)))
            elif op == '+':
                out.append((s, v))
            elif op == '~':
                out.append((s, self.arith('^', v, Lin.c(-1), n, s)))
            else:
                raise Unsupported('unary %s' % op)
        return out

    def e_BinaryOperator(self, n, st):
        op = n['opcode']
        a, b = n['inner']
        if op == '=':
            out = []
            for s, lv in self.eval_lv(a, st):
                for s2, v in self.eval(b, s):
                    for s3 in self.store(lv, v, s2, n):
                        out.append((s3, v))
            return out
        if op == '&&':
            out = []
            ts, fs = self.branch(a, st)
            for s in fs:
                out.append((s, Lin.c(0)))
            for s in ts:
                t2, f2 = self.branch(b, s)
                out.extend((x, Lin.c(1)) for x in t2)
                out.extend((x, Lin.c(0)) for x in f2)
            return out
        if op == '||':
            out = []
            ts, fs = self.branch(a, st)
            for s in ts:
                out.append((s, Lin.c(1)))
            for s in fs:
                t2, f2 = self.branch(b, s)
                out.extend((x, Lin.c(1)) for x in t2)
                out.extend((x, Lin.c(0)) for x in f2)
            return out
        if op == ',':
            out = []
            for s, _ in self.eval(a, st):
                out.extend(self.eval(b, s))
            return out
        out = []
        for s, va in self.eval(a, st):
            for s2, vb in self.eval(b, s):
                if op in ('==', '!=', '<', '<=', '>', '>='):
                    out.extend(self.compare(op, va, vb, s2, n))
                else:
                    out.append((s2, self.binop(op, va, vb, n, s2)))
        return out

    def e_CompoundAssignOperator(self, n, st):
        op = n['opcode'][:-1]
        a, b = n['inner']
        out = []
        for s, lv in self.eval_lv(a, st):
            for s2, old in self.load(lv, s, a):
                for s3, vb in self.eval(b, s2):
                    # computation happens in computeResultType, then converts to the lhs type
                    ct = n.get('computeResultType', n['type'])
                    fake = {'type': ct, 'range': n.get('range'), 'loc': n.get('loc')}
                    if is_lin(old):
                        oldc = self.int_cast(old, {'type': n.get('computeLHSType', ct), 'range': n.get('range')}, s3)
                    else:
                        oldc = old
                    r = self.binop(op, oldc, vb, fake, s3)
                    if is_lin(r):
                        r = self.int_cast(r, n, s3)
                    for s4 in self.store(lv, r, s3, n):
                        out.append((s4, r))
        return out

    # ---- arithmetic ---------------------------------------------------------
    def binop(self, op, a, b, n, s):
        if is_lin(a) and is_lin(b):
            return self.arith(op, a, b, n, s)
        # pointer arithmetic
        if op in ('+', '-') and isinstance(a, tuple) and is_lin(b):
            return self.ptr_add(a, b if op == '+' else b.scale(-1), s, n)
        if op == '+' and isinstance(b, tuple) and is_lin(a):
            return self.ptr_add(b, a, s, n)
        for v in (a, b):
            if isinstance(v, tuple) and v[0] == 'uninit':
                s.ev('ob', n, ob='uninit', ok=False, what=v[1])
                return self.fresh(s, 'U:%s' % v[1], n['type'])
        raise Unsupported('binary %s on %r,%r at line %s' % (op, a, b, node_pos(n)[1]))

    def arith(self, op, a, b, n, s):
        it = self.itype(n)
        if it is None:
            raise Unsupported('arithmetic in non-integer type at line %s' % node_pos(n)[1])
        bits, signed = it
        tlo, thi = self.type_range(n['type'])
        r = None
        if op == '+':
            r = a.add(b)
        elif op == '-':
            r = a.sub(b)
        elif op == '*':
            if b.is_const():
                r = a.scale(b.const)
            elif a.is_const():
                r = b.scale(a.const)
        elif op == '<<':
            if b.is_const():
                if b.const < 0 or b.const >= bits:
                    s.ev('ob', n, ob='shift', ok=False, amount=b)
                    return self.fresh(s, 'badshift@%s' % node_pos(n)[1], n['type'])
                s.ev('ob', n, ob='shift', ok=True, amount=b)
                if signed and s.facts.lower(a) < 0:
                    s.ev('ob', n, ob='shift-neg', ok=False, value=a)
                r = a.scale(1 << b.const)
            else:
                lo, hi = s.facts.lower(b), s.facts.upper(b)
                s.ev('ob', n, ob='shift', ok=(lo >= 0 and hi < bits), amount=b)
        elif op == '>>':
            lo, hi = s.facts.lower(b), s.facts.upper(b)
            s.ev('ob', n, ob='shift', ok=(lo >= 0 and hi < bits), amount=b)
        if r is not None:
            if r.is_const():
                c = r.const
                if c < tlo or c > thi:
                    if signed:
                        s.ev('ob', n, ob='sovf', ok=False, value=r, op=op)
                    c &= (1 << bits) - 1
                    if signed and c >= (1 << (bits - 1)):
                        c -= 1 << bits
                return Lin.c(c)
            lo, hi = s.facts.lower(r), s.facts.upper(r)
            if lo < tlo:
                lo = s.facts.lower(r, 2, tlo)
            if hi > thi:
                hi = s.facts.upper(r, 2, thi)
            if lo >= tlo and hi <= thi:
                if signed:
                    s.ev('ob', n, ob='sovf', ok=True, value=r, op=op)
                return r
            if signed:
                s.ev('ob', n, ob='sovf', ok=False, value=r, op=op, lo=lo, hi=hi)
                return self.fresh(s, 'ovf(%s)' % lin_repr(r), n['type'])
            if bits == 64 and op == '+' and lo >= tlo and s.facts.lower(a) >= 0 and s.facts.lower(b) >= 0:
                # domain assumption: a 64-bit counter of input bytes / descriptor entries never overflows
                s.ev('assume', n, what='no-64bit-counter-overflow', value=r)
                return r
            # unsigned wrap-around: well defined but the linear form is lost
            s.ev('wrap', n, value=r, op=op, lo=lo, hi=hi)
            return self.fresh(s, 'wrap%d(%s)' % (bits, lin_repr(r)), n['type'])
        # non-linear: constants fold, otherwise a derived atom named by its definition
        if a.is_const() and b.is_const():
            x, y = a.const, b.const
            try:
                c = {'*': lambda: x * y, '/': lambda: int(x / y) if y else None, '%': lambda: (x - y * int(x / y)) if y else None,
                     '<<': lambda: x << y, '>>': lambda: x >> y, '&': lambda: x & y, '|': lambda: x | y,
                     '^': lambda: x ^ y}[op]()
            except KeyError:
                raise Unsupported('operator %s' % op)
            if c is None:
                s.ev('ob', n, ob='divzero', ok=False)
                return self.fresh(s, 'div0@%s' % node_pos(n)[1], n['type'])
            if c < tlo or c > thi:
                if signed:
                    s.ev('ob', n, ob='sovf', ok=False, value=Lin.c(c), op=op)
                c &= (1 << bits) - 1
                if signed and c >= (1 << (bits - 1)):
                    c -= 1 << bits
            return Lin.c(c)
        alo, ahi = s.facts.lower(a), s.facts.upper(a)
        if op in ('/', '%') and b.is_const() and b.const > 0 and (b.const & (b.const - 1)) == 0 and alo >= 0:
            # division / remainder of a non-negative value by a power of two: the same value as the
            # shift / mask, and named the same way (one canonical derived atom for both spellings)
            s.ev('ob', n, ob='divzero', ok=True)
            if b.const == 1:
                return a if op == '/' else Lin.c(0)
            if op == '/':
                op, b = '>>', Lin.c(b.const.bit_length() - 1)
            else:
                op, b = '&', Lin.c(b.const - 1)
        blo, bhi = s.facts.lower(b), s.facts.upper(b)
        name = '%s(%s,%s)' % ({'*': 'mul', '/': 'div', '%': 'mod', '<<': 'shl', '>>': 'shr', '&': 'and', '|': 'or', '^': 'xor'}[op],
                              lin_repr(a), lin_repr(b))
        lo, hi = tlo, thi
        if op == '>>' and b.is_const() and alo >= 0:
            lo, hi = (alo >> b.const, (ahi >> b.const) if ahi != INF else thi)
        elif op == '&' and (b.is_const() and b.const >= 0 or a.is_const() and a.const >= 0):
            mk = b.const if b.is_const() else a.const
            lo, hi = 0, mk
        elif op == '%' and b.is_const() and b.const > 0 and alo >= 0:
            lo, hi = 0, b.const - 1
        elif op == '/' and b.is_const() and b.const > 0 and alo >= 0:
            lo, hi = alo // b.const, (ahi // b.const) if ahi != INF else thi
        elif op in ('|', '^') and alo >= 0 and blo >= 0 and ahi != INF and bhi != INF:
            lo, hi = 0, (1 << max(int(ahi).bit_length(), int(bhi).bit_length())) - 1
        elif op == '*' and alo >= 0 and blo >= 0:
            lo = alo * blo
            hi = ahi * bhi if (ahi != INF and bhi != INF) else INF
            if hi > thi:
                if signed:
                    s.ev('ob', n, ob='sovf', ok=False, op=op, value=name)
                lo, hi = tlo, thi
        elif op == '*':
            if INF in (ahi, bhi) or -INF in (alo, blo):
                if signed:
                    s.ev('ob', n, ob='sovf', ok=False, op=op, value=name)
            else:
                ps = [alo * blo, alo * bhi, ahi * blo, ahi * bhi]
                lo, hi = min(ps), max(ps)
                if lo < tlo or hi > thi:
                    if signed:
                        s.ev('ob', n, ob='sovf', ok=False, op=op, value=name)
                    lo, hi = tlo, thi
                elif signed:
                    s.ev('ob', n, ob='sovf', ok=True, op=op, value=name)
        if op in ('/', '%'):
            z = s.facts.eq(b, 0)
            s.ev('ob', n, ob='divzero', ok=(z is False))
        lo, hi = max(lo, tlo), min(hi, thi)
        s.ghost[('def', name)] = (op, a, b)
        return self.fresh(s, name, None, (lo, hi))

    def compare(self, op, a, b, s, n):
        """-> list of (state, Lin 0/1)"""
        if is_lin(a) and is_lin(b):
            d = a.sub(b)
            if op == '==':
                e = s.facts.eq(d, 0)
                if e is not None:
                    return [(s, Lin.c(1 if e else 0))]
                f = s.copy()
                out = []
                if any(a_.startswith('strlen(') for a_, _ in d.terms):
                    s.ev('cap_cmp', n, form=d, bound=0, op='==')
                    f.ev('cap_cmp', n, form=d, bound=None, op='!=')
                sg_ = d.single()
                if sg_ is not None and sg_[1] in (1, -1) and sg_[0] in s.prov:
                    # a loaded byte compared with a constant: remembered for the table-extraction rules
                    cst = -sg_[2] * sg_[1]
                    s.ev('bytecmp', n, atom=sg_[0], const=cst, eq=True, src=s.prov[sg_[0]])
                    f.ev('bytecmp', n, atom=sg_[0], const=cst, eq=False, src=s.prov[sg_[0]])
                if s.facts.assume_eq(d, 0) and self.model.refined(s, d, self) is not False:
                    out.append((s, Lin.c(1)))
                if f.facts.assume_ne(d, 0) and self.model.refined(f, d, self) is not False:
                    out.append((f, Lin.c(0)))
                self.stats['forks'] += 1
                return out
            if op == '!=':
                return [(x, Lin.c(1 - v.const)) for x, v in self.compare('==', a, b, s, n)]
            if op == '<':
                form, c = d, -1          # a-b <= -1
            elif op == '<=':
                form, c = d, 0
            elif op == '>':
                form, c = d.scale(-1), -1
            else:
                form, c = d.scale(-1), 0
            e = s.facts.le(form, c)
            if e is not None:
                return [(s, Lin.c(1 if e else 0))]
            f = s.copy()
            out = []
            self.stats['forks'] += 1
            if any(a_.endswith('.data_size') or a_.startswith('strlen(') for a_, _ in form.terms):
                # a comparison against a variable's capacity: remembered for the tightness rules
                s.ev('cap_cmp', n, form=form, bound=c, op=op)
                f.ev('cap_cmp', n, form=form.scale(-1), bound=-c - 1, op='!' + op)
            if s.facts.assume_le(form, c) and self.model.refined(s, form, self) is not False:
                out.append((s, Lin.c(1)))
            if f.facts.assume_le(form.scale(-1), -c - 1) and self.model.refined(f, form, self) is not False:
                out.append((f, Lin.c(0)))
            return out
        # pointer comparison
        if op in ('==', '!='):
            r = self.ptr_eq(a, b, s)
            outs = []
            if r is None:
                name = None
                other = None
                if a == NULL:
                    name, other = self.ptr_name(b), b
                elif b == NULL:
                    name, other = self.ptr_name(a), a
                f = s.copy()
                self.stats['forks'] += 1
                if name is not None:
                    s.pnull[name] = True
                    f.pnull[name] = False
                else:
                    s.ev('ptrcmp', n, a=a, b=b, eq=True)
                    f.ev('ptrcmp', n, a=a, b=b, eq=False)
                outs = [(s, True), (f, False)]
            else:
                outs = [(s, r)]
            return [(x, Lin.c(1 if (eq == (op == '==')) else 0)) for x, eq in outs]
        raise Unsupported('comparison %s of %r and %r at line %s' % (op, a, b, node_pos(n)[1]))

    def ptr_eq(self, a, b, s):
        if a == NULL or b == NULL:
            o = b if a == NULL else a
            if o == NULL:
                return True
            isn = self.is_null(o, s)
            return isn
        if a == b and a[0] not in ('top', 'uninit'):
            return True
        return None

    # ---- lvalues --------------------------------------------------------------
    def eval_lv(self, n, st):
        k = n['kind']
        if k == 'ParenExpr':
            return self.eval_lv(n['inner'][0], st)
        if k == 'DeclRefExpr':
            ref = n['referencedDecl']
            if ref['kind'] in ('VarDecl', 'ParmVarDecl'):
                d = self.prog.decl_by_id.get(ref['id'])
                # static local / global: treated as an immutable initialised constant
                depth = len(st.stack) - 1
                loc = ('L', depth, ref['id'])
                if loc not in st.mem:
                    g = self._find_static(ref['id'])
                    if g is not None:
                        return [(st, ('static', ref['id'], g))]
                    raise Unsupported('reference to unknown variable %s at line %s' % (ref.get('name'), node_pos(n)[1]))
                return [(st, ('loc', loc))]
            raise Unsupported('lvalue decl kind %s' % ref['kind'])
        if k == 'MemberExpr':
            base = n['inner'][0]
            fname = n['name']
            out = []
            if n.get('isArrow'):
                for s, pv in self.eval(base, st):
                    out.extend((s2, self.member(lv, fname, n, s2)) for s2, lv in self.deref(pv, s, n, base))
            else:
                for s, lv in self.eval_lv(base, st):
                    out.append((s, self.member(lv, fname, n, s)))
            return out
        if k == 'ArraySubscriptExpr':
            b, i = n['inner']
            out = []
            for s, pv in self.eval(b, st):
                for s2, iv in self.eval(i, s):
                    if not is_lin(iv):
                        raise Unsupported('non-integer subscript')
                    pv2 = self.ptr_add(pv, iv, s2, n)
                    out.extend(self.deref(pv2, s2, n, b))
            return out
        if k == 'UnaryOperator' and n['opcode'] == '*':
            out = []
            for s, pv in self.eval(n['inner'][0], st):
                out.extend(self.deref(pv, s, n, n['inner'][0]))
            return out
        if k in ('ImplicitCastExpr', 'CStyleCastExpr') and n.get('castKind') in ('NoOp',):
            return self.eval_lv(n['inner'][0], st)
        if k == 'StringLiteral':
            return [(st, ('elem', ('lit', self._lit(n)), Lin.c(0), n['type']))]
        raise Unsupported('lvalue kind %s at line %s' % (k, node_pos(n)[1]))

    def _find_static(self, did):
        c = getattr(self, '_statics', None)
        if c is None:
            c = self._statics = {}
            for fn in self.prog.functions.values():
                self._collect_statics(fn['_body'], c)
        return c.get(did)

    def _collect_statics(self, n, c):
        if n.get('kind') == 'VarDecl' and n.get('storageClass') == 'static':
            c[n['id']] = n
        for ch in n.get('inner', ()):
            if isinstance(ch, dict) and ch:
                self._collect_statics(ch, c)

    def member(self, lv, fname, n, s):
        if lv[0] == 'loc':
            return ('loc', lv[1] + (fname,))
        if lv[0] == 'selfobj':
            return ('loc', ('S', fname))
        if lv[0] == 'obj':
            return ('imm', lv[1], fname, n['type'])
        if lv[0] == 'top':
            return ('top',)
        raise Unsupported('member %s of %r at line %s' % (fname, lv, node_pos(n)[1]))

    def deref(self, pv, s, n, pnode):
        """pointer value -> list of (state, lvalue)"""
        if not isinstance(pv, tuple):
            raise Unsupported('dereference of integer at line %s' % node_pos(n)[1])
        t = pv[0]
        if t == 'self':
            return [(s, ('selfobj',))]
        if t == 'ref':
            return [(s, ('loc', pv[1]))]
        if t == 'arr':
            return [(s, ('aelem', pv[1], Lin.c(0), pv[2]))]
        if t == 'aptr':
            return [(s, ('aelem', pv[1], pv[3], pv[2]))]
        if t in ('null', 'top', 'uninit'):
            s.ev('ob', n, ob='null', ok=False, ptr=pv)
            return [(s, ('top',))]
        if t == 'refarr':
            size = self.model.array_len(pv[1])
            idx = pv[2]
            ok = s.facts.lower(idx) >= 0 and s.facts.upper(idx) < size
            s.ev('ob', n, ob='index', ok=ok, array=pv[1], index=idx, cap=Lin.c(size))
            if idx.is_const():
                return [(s, ('loc', pv[1] + (idx.const,)))]
            return [(s, ('loc', pv[1] + ('*',)))]
        if t == 'wbuf':
            return self.model.deref_wbuf(pv, s, self, n)
        # nullable named pointers: obligation that the pointer is not NULL
        isn = self.is_null(pv, s)
        name = self.ptr_name(pv)
        if isn is True:
            s.ev('ob', n, ob='null', ok=False, ptr=pv)
            return [(s, ('top',))]
        if isn is None:
            assumed = self.model.assume_nonnull(name)
            s.ev('ob', n, ob='null', ok=True if assumed else None, ptr=pv, assumed=assumed)
            s.pnull[name] = False
        if t == 'obj':
            return [(s, ('obj', pv[1]))]
        if t == 'oarr':
            return [(s, ('obj', '%s[0]' % pv[1]))]
        if t == 'oelem':
            return [(s, ('obj', '%s[%s]' % (pv[1], lin_repr(self._pin(pv[2], s)))))]
        if t == 'parr':
            return [(s, ('pelem', pv[1], Lin.c(0)))]
        if t == 'pelemp':
            return [(s, ('pelem', pv[1], pv[2]))]
        if t == 'mem':
            return [(s, ('elem', pv[1], pv[2], n['type']))]
        raise Unsupported('dereference of %r at line %s' % (pv, node_pos(n)[1]))

    def decay(self, lv, s, n):
        """array lvalue -> pointer to its first element"""
        if lv[0] == 'loc':
            v = s.mem.get(lv[1])
            if isinstance(v, tuple) and v[0] == 'arr':
                return v
            # array field inside self (the ring): pointer to aggregate elements
            return ('refarr', lv[1], Lin.c(0))
        if lv[0] == 'elem':
            return ('mem', lv[1], lv[2])
        raise Unsupported('array decay of %r at line %s' % (lv, node_pos(n)[1]))

    def ptr_add(self, p, off, s, n):
        if not isinstance(p, tuple):
            raise Unsupported('pointer arithmetic on integer')
        t = p[0]
        if off.is_const() and off.const == 0:
            return p
        if t == 'mem':
            return self.model.rebase(('mem', p[1], p[2].add(off)), s, self, n)
        if t == 'oarr':
            self.check_index(s, n, p[1], off)
            return ('oelem', p[1], off)
        if t == 'oelem':
            o2 = p[2].add(off)
            self.check_index(s, n, p[1], o2)
            return ('oelem', p[1], o2)
        if t == 'parr':
            self.check_index(s, n, p[1], off)
            return ('pelemp', p[1], off)
        if t == 'refarr':
            return ('refarr', p[1], p[2].add(off))
        if t == 'arr':
            return ('aptr', p[1], p[2], off)
        if t == 'aptr':
            return ('aptr', p[1], p[2], p[3].add(off))
        if t in ('top', 'wbuf'):
            return p
        if t == 'obj':
            # stepping away from a pointer to one abstract object: nothing says that the neighbour exists
            s.ev('ob', n, ob='index', ok=None, array=p[1], index=off, cap=Lin.c(1))
            return ('top',)
        raise Unsupported('pointer arithmetic on %r at line %s' % (p, node_pos(n)[1]))

    def check_index(self, s, n, arrname, idx):
        cap = self.model.array_capacity(arrname, s, self)
        ok = None
        if cap is not None:
            lo = s.facts.lower(idx)
            ok = (s.facts.le(idx.sub(cap), -1) is True) and lo >= 0
        s.ev('ob', n, ob='index', ok=ok, array=arrname, index=idx, cap=cap)

    def addr_of(self, lv, s, n):
        t = lv[0]
        if t == 'loc':
            v = s.mem.get(lv[1])
            return ('ref', lv[1])
        if t == 'obj':
            s.pnull[lv[1]] = False       # the address of an object is not NULL
            return ('obj', lv[1])
        if t == 'elem':
            return ('mem', lv[1], lv[2])
        if t == 'aelem':
            return ('aptr', lv[1], lv[3], lv[2])
        if t == 'selfobj':
            return SELF
        if t == 'top':
            return TOP
        raise Unsupported('address of %r at line %s' % (lv, node_pos(n)[1]))

    # ---- memory -------------------------------------------------------------
    def load(self, lv, s, n):
        t = lv[0]
        if t == 'loc':
            loc = lv[1]
            # refarr element resolution: ('S', ..., idx)
            if loc not in s.mem:
                v = self.model.initial(loc, s, self, n)
                s.mem[loc] = v
            v = s.mem[loc]
            if loc[0] == 'S':
                s.ev('ld', n, loc=loc)
            if isinstance(v, tuple) and v[0] == 'uninit':
                s.ev('ob', n, ob='uninit', ok=False, what=v[1])
                v = self.fresh(s, 'U:%s@%s' % (v[1], node_pos(n)[1]), n.get('type'))
            return [(s, v)]
        if t == 'static':
            init = [c for c in lv[2].get('inner', ()) if c.get('kind')]
            if not init:
                raise Unsupported('static without initialiser')
            return self.eval(init[0], s)
        if t == 'imm':
            return [(s, self.model.load_imm(lv[1], lv[2], lv[3], s, self, n))]
        if t == 'pelem':
            self_name = '%s[%s]' % (lv[1], lin_repr(self._pin(lv[2], s)))
            s.pnull.setdefault(self_name, False) if self.model.assume_nonnull(self_name) else None
            return [(s, ('obj', self_name))]
        if t == 'elem':
            return self.model.load_elem(lv[1], lv[2], lv[3], s, self, n)
        if t == 'aelem':
            return self.model.load_local_array(lv, s, self, n)
        if t == 'refelem':
            raise Unsupported('refelem')
        if t == 'top':
            return [(s, self.fresh(s, 'T@%s' % node_pos(n)[1], n.get('type')) if self.itype(n) else TOP)]
        if t == 'obj':
            return [(s, ('obj', lv[1]))]
        raise Unsupported('load from %r at line %s' % (lv, node_pos(n)[1]))

    def store(self, lv, v, s, n):
        t = lv[0]
        if t == 'loc':
            loc = lv[1]
            if loc[0] == 'S':
                e = s.ev('st', n, loc=loc, val=v)
                self.model.on_store_field(loc, v, s, self, n, e)
            s.mem[loc] = v
            return [s]
        if t == 'elem':
            return self.model.store_elem(lv[1], lv[2], lv[3], v, s, self, n)
        if t == 'aelem':
            return self.model.store_local_array(lv, v, s, self, n)
        if t == 'imm':
            s.ev('ob', n, ob='desc-write', ok=False, obj=lv[1], field=lv[2])
            return [s]
        if t == 'top':
            s.ev('ob', n, ob='wild-store', ok=False)
            return [s]
        raise Unsupported('store to %r at line %s' % (lv, node_pos(n)[1]))

    # ---- calls ----------------------------------------------------------------
    def e_CallExpr(self, n, st):
        callee = n['inner'][0]
        argn = n['inner'][1:]
        # evaluate callee, then arguments left to right
        cur = [(st, [])]
        outs = []
        for s, f in self.eval(callee, st):
            cur = [(s, [])]
            for a in argn:
                nxt = []
                for s2, vals in cur:
                    for s3, v in self.eval(a, s2):
                        nxt.append((s3, vals + [v]))
                cur = nxt
            for s2, vals in cur:
                outs.extend(self.do_call(f, vals, s2, n))
        return outs

    def do_call(self, f, args, s, n):
        if isinstance(f, tuple) and f[0] == 'cfn':
            fn = self.prog.fn_by_id.get(f[1]) or self.prog.functions.get(f[2])
            if fn is not None and '_body' in fn:
                ov = self.model.override(fn['name'])
                if ov is not None:
                    return ov(self, fn, args, s, n)
                if self.model.opaque is not None and fn['name'] not in self.model.opaque:
                    return self.model.opaque_call(self, fn, args, s, n)
                return self.call_fn(fn, s, args, n)
            return self.model.library(f[2], args, s, self, n)
        if isinstance(f, tuple) and f[0] == 'fn':
            isn = s.pnull.get(f[1])
            s.ev('ob', n, ob='null-call', ok=(True if isn is False else (False if isn is True else None)), ptr=f)
            return self.model.callback(f, args, s, self, n)
        if isinstance(f, tuple) and f and f[0] in ('top', 'null', 'uninit'):
            # a call through a pointer that is NULL or came out of a failed dereference: the obligation is
            # recorded as failed (C03) and the path goes on with an unknown result, so that the rest of the
            # tree is still analysed
            s.ev('ob', n, ob='null-call', ok=False, ptr=f)
            rt = n.get('type', {})
            if self.prog.int_type(rt) is not None:
                return [(s, self.fresh(s, 'wildcall@%s' % node_pos(n)[1], rt))]
            q = rt.get('qualType', '') if isinstance(rt, dict) else str(rt)
            return [(s, None if q.strip() == 'void' else ('top',))]
        raise Unsupported('call through %r at line %s' % (f, node_pos(n)[1]))
