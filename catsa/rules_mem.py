"""Memory-safety and data-path rules: C03, C04, C05, C06, C08 (bounds, tightness, access control)."""
from .frontend import AnalysisBroken, node_pos
from .interp import trace_paths, trace_events, trace_count, is_lin, SELF, State
from .lin import Lin, INF
from .graph import Index, walk
from .rules_fsm import transitions, T, cval, short, consumed_char, _eff, ring_models

OB_MEM = ('bound', 'index', 'null', 'wild-store', 'wild-read', 'const-write', 'desc-write', 'uninit',
          'strlen-unterminated', 'strncpy-unterminated')
OB_ARITH = ('sovf', 'shift', 'shift-neg', 'divzero')


def _api_paths(ctx, m=None):
    """deep runs of the exported functions that are not part of the two machines"""
    m = m or ctx.model
    out = []
    E = m.prog.enums
    for f in m.exported_functions():
        if f in ('cat_service',):
            continue
        fn = m.prog.functions[f]
        variants = [[]]
        for p in fn['_params'][1:]:
            q = p['type'].get('desugaredQualType', p['type']['qualType'])
            nv = []
            for v in variants:
                if p['type']['qualType'] == 'cat_fsm_type':
                    nv.append(v + [Lin.c(0)])
                    nv.append(v + [Lin.c(1)])
                elif m.prog.int_type(q) is not None:
                    nv.append(v + [('int', p)])
                elif 'char' in q:
                    nv.append(v + [('str', p)])
                else:
                    nv.append(v + [('ptr', p)])
            variants = nv
        for var in variants:
            args = [SELF] + list(var)

            def setup(s, args=args):
                for i, a in enumerate(args):
                    if isinstance(a, tuple) and a[0] == 'int':
                        args[i] = m.ms.it.fresh(s, 'arg:' + a[1]['name'], a[1]['type'])
                        en = m.prog.enum_of(a[1]['type'])
                        if en is not None:
                            vals = en['consts'].values()
                            s.facts.iv['arg:' + a[1]['name']] = (min(vals), max(vals))
                    elif isinstance(a, tuple) and a[0] == 'str':
                        args[i] = ('mem', ('dstr', 'ARG_' + a[1]['name']), Lin.c(0))
                        s.pnull['ARG_' + a[1]['name']] = False
                    elif isinstance(a, tuple) and a[0] == 'ptr':
                        nm = {'desc': 'DESC', 'io': 'IO', 'mutex': 'MUTEX'}.get(a[1]['name'], 'ARG_' + a[1]['name'])
                        args[i] = ('obj', nm)
                        if nm != 'MUTEX':
                            s.pnull[nm] = False
            outs = m.run(f, args, setup=setup)
            for s, rv in outs:
                out.append((f, s, rv))
    return out


def _ring_ranges(ctx, m, cap):
    from .rules_api import _ring_setup, RING, _const
    if not cap:
        raise AnalysisBroken('anchor vanished: capacity of the event ring')
    uidle = m.prog.enum_types['cat_unsolicited_state']['consts']['CAT_UNSOLICITED_STATE_IDLE']
    rd = m.prog.enums['CAT_CMD_TYPE_READ']
    n = 0
    for h in range(cap):
        for t in range(cap):
            for c in range(cap + 1):
                def setup(s, h=h, t=t, c=c):
                    _ring_setup(h, t, c)(s)
                    s.pnull['XCMD'] = False
                    s.mem[RING + ('state',)] = Lin.c(uidle)
                    s.mem[RING + ('cmd',)] = ('null',)
                for what, f, args in (('push', 'cat_trigger_unsolicited_event', [SELF, ('obj', 'XCMD'), Lin.c(rd)]), ('pop', m.ms.evt_dispatch, [SELF])):
                    for s, rv in m.run(f, args, setup=setup):
                        n += 1
                        nh = _const(s.mem.get(RING + ('unsolicited_cmd_buffer_head',)))
                        nt = _const(s.mem.get(RING + ('unsolicited_cmd_buffer_tail',)))
                        nc = _const(s.mem.get(RING + ('unsolicited_cmd_buffer_items_count',)))
                        ok = nh is not None and nt is not None and nc is not None and 0 <= nh < cap and 0 <= nt < cap and 0 <= nc <= cap
                        ctx.check('bound', ok, ctx.site(f, m.fn_line(f)),
                                  '[capacity %d] %s from (head %d, tail %d, count %d) leaves (head %s, tail %s, count %s): the next access to the ring array is out of bounds'
                                  % (cap, what, h, t, c, nh, nt, nc))
    ctx.extra.setdefault('ring_range_cases', 0)
    ctx.extra['ring_range_cases'] += n


def _ob_site(e):
    return 'src/cat.c:%s:%s' % (e.get('line'), e.get('fn'))


def _ob_msg(e):
    k = e['ob']
    if k == 'bound':
        return 'cannot show %s of %s bytes at offset %s inside %s (capacity %s)' % (e.get('access'), e.get('width'), e.get('off'), e.get('region'), e.get('cap'))
    if k == 'index':
        return 'cannot show index %s < %s for array %s' % (e.get('index'), e.get('cap'), e.get('array'))
    if k == 'null':
        return 'dereference of a possibly NULL pointer %r' % (e.get('ptr'),)
    if k == 'sovf':
        return 'signed arithmetic (%s) may overflow: %s in [%s, %s]' % (e.get('op'), e.get('value'), e.get('lo'), e.get('hi'))
    if k in ('shift', 'shift-neg'):
        return 'shift amount/operand out of range: %s' % (e.get('amount') or e.get('value'))
    return k


def c03(ctx):
    m = ctx.model
    ctx.assume('descriptor domain of C03: command-buffer capacity >= 6 and >= ceil(commands/4); descriptor strings NUL-terminated; '
               'var->data points to data_size >= 1 suitably aligned bytes; enum-typed descriptor fields hold enumerators; at least one group and one command per group')
    ctx.assume('counters of consumed input bytes / descriptor entries do not reach 2^64')
    ctx.assume('handlers leave *data_size <= max_data_size and the buffer NUL-terminated; queued events carry a valid command')
    sites = {}
    n_ob = 0
    # the two flat-index helpers are summarised while the machines are extracted: their own bodies
    # (bounds of both subscripts for all sizes; what they compute, on a small scope) are checked here
    from .rules_fsm import flatidx
    flatidx(ctx)
    # the event ring is indexed by head and tail without a test: the environment model takes
    # "head, tail < capacity, count <= capacity" for granted in every state.  That this is an inductive
    # invariant of the two operations is checked here (every state in those ranges, this configuration's capacity)
    _ring_ranges(ctx, m, m.ms.model.ring_cap)

    def take(events, where):
        nonlocal n_ob
        for e in events:
            if e['k'] != 'ob':
                continue
            ob = e['ob']
            if ob in OB_MEM:
                rule = 'bound'
            elif ob in OB_ARITH:
                rule = 'arith'
            else:
                continue
            n_ob += 1
            key = (rule, e.get('line'), e.get('fn'), ob)
            ok = e['ok'] is True
            cur = sites.get(key)
            if cur is None or (cur[0] and not ok):
                sites[key] = (ok, e, where)
    for which in ('cmd', 'evt'):
        ex, ts = transitions(ctx, which)
        mine = {('BUF',)} if which == 'cmd' else {('BUFHI',), ('UBUF',)}
        for t in ts:
            take(t.events, short(t.frm))
            for e in t.events:
                if e['k'] in ('wr', 'rd') and e['region'][0] in ('BUF', 'BUFHI', 'UBUF'):
                    ctx.check('halves', e['region'] in mine, t.site(e),
                              'the %s machine %s %s' % (which, 'writes' if e['k'] == 'wr' else 'reads', e['region']))
    if ctx.tier == 'thorough':
        for cap, mod in ring_models(ctx):
            if mod is ctx.model:
                continue
            _ring_ranges(ctx, mod, cap)
            ex, ts = transitions(ctx, 'evt', mod)
            for t in ts:
                take(t.events, 'cap%d:%s' % (cap, short(t.frm)))
    for f, s, rv in _api_paths(ctx):
        take(trace_events(s.trace), f)
    for (rule, line, fn, ob), (ok, e, where) in sorted(sites.items(), key=lambda x: (x[0][1] or 0, repr(x[0]))):
        ctx.check(rule, ok, _ob_site(e), '%s [reached from %s]' % (_ob_msg(e), where))
    ctx.extra['access_sites'] = len([k for k in sites if k[0] == 'bound'])
    ctx.extra['arith_sites'] = len([k for k in sites if k[0] == 'arith'])
    ctx.extra['obligation_instances'] = n_ob
    for k in list(sites)[:6]:
        ctx.sample({'site': '%s:%s' % (k[2], k[1]), 'kind': k[3], 'proved': sites[k][0]})
    return ctx


# ------------------------------------------------------------------------------------- write-argument step (C04, C05, C08)
def _decode_transitions(ctx):
    ex, ts = transitions(ctx, 'cmd')
    return ex, [t for t in ts if t.frm.endswith('PARSE_WRITE_ARGS')]


def _fail_closed(ctx, ts):
    """a failing decoder / validator / variable callback ends the command with ERROR before any handler;
    the write handler is reached only after a complete, successful decode"""
    # validators: the direct callees that store a parsed number into variable storage (they report failure with
    # any non-zero value; the decoders report it with a negative one)
    byte_dec = _byte_decoders(ts)
    validators = set()
    for t in ts:
        for e in t.events:
            if e['k'] == 'wr' and e['region'][0] == 'vdata' and e['fn'] not in byte_dec and len(e['stack']) == 3:
                validators.add(e['fn'])
    for t in ts:
        # int-returning direct callees of the handler: decoders and validators
        handler = None
        rets = []
        for e in t.events:
            if e['k'] == 'exit' and len(e['stack']) == 3 and e.get('ret') is not None and is_lin(e['ret']):
                rets.append(e)
        failed = False
        for e in rets:
            r = e['ret']
            lo, hi = t.raw.facts.lower(r), t.raw.facts.upper(r)
            if hi < 0 or (e['name'] in validators and (lo > 0 or hi < 0)):
                failed = True
        for e in t.evs('cb'):
            if e['kind'] == 'var.write' and t.raw.facts.eq(e['ret'], 0) is False:
                failed = True
        acks = set(a['text'] for a in t.acks())
        if failed:
            ctx.check('fail-closed', acks == {'ERROR'} and not t.to.endswith('WRITE_LOOP'), t.site(),
                      'a rejected argument does not end the command with ERROR (next %s, result codes %s)' % (short(t.to), sorted(acks)))
        if t.to.endswith('WRITE_LOOP') or acks == {'OK'}:
            ctx.check('fail-closed', not failed, t.site(), 'the write handler / OK is reached although an argument was rejected')


def c05(ctx):
    m = ctx.model
    ex, ts = _decode_transitions(ctx)
    ctx.assume('var->data points to data_size bytes; data_size >= 1')
    _fail_closed(ctx, ts)
    RO = m.prog.enums['CAT_VAR_ACCESS_READ_ONLY']
    decoders = sorted(_byte_decoders(ts))
    if len(decoders) < 2:
        raise AnalysisBroken('anchor vanished: fewer than two byte-wise decoders found (%s)' % decoders)
    ctx.extra['buffer_decoders'] = decoders
    stores = {}
    for t in ts:
        for e in t.events:
            if e['k'] == 'wr' and e['region'][0] == 'vdata' and e['fn'] in decoders:
                key = (e['line'], e['fn'])
                room = e.get('room')
                ok = room is not None and room <= 0
                cur = stores.get(key)
                if cur is None or (cur[0] and not ok):
                    stores[key] = (ok, e, t)
    for (line, fn), (ok, e, t) in sorted(stores.items()):
        ctx.check('bound', ok, _ob_site(e), 'a decoded byte may be stored at or beyond data_size (offset %s)' % (e['off'],))
    # tightness: the comparisons that guard the stores sit exactly at data_size, so that a text is
    # refused for lack of room only when it really does not fit
    cmps = {}
    for t in ts:
        for e in t.evs('cap_cmp'):
            if e['fn'] in decoders:
                cmps[(e['line'], e['fn'], e['op'])] = e
    for (line, fn, op), e in sorted(cmps.items()):
        form, bound = e['form'], e['bound']
        # normalise to   data_size - X <= c
        co = [c for a, c in form.terms if a.endswith('.data_size')]
        if len(form.terms) != 2 or not co:
            ctx.check('tight', False, _ob_site(e), 'unrecognised capacity comparison %s <= %s' % (form, bound))
            continue
        c = bound - form.const if co[0] == 1 else None
        if c is None:
            continue          # the complementary branch is checked through its sibling
        ctx.check('tight', c == 0, _ob_site(e), 'the capacity test is off by %d: the decoder %s' %
                  (c, 'refuses texts that would fit' if c > 0 else 'accepts texts that do not fit'))
    # the decoded length and the byte under construction are counted without wrap-around
    wraps = {}
    for t in ts:
        for e in t.events:
            if e['fn'] in decoders and e['k'] == 'wrap':
                wraps[(e['line'], e['fn'])] = e
    for (line, fn), e in sorted(wraps.items()):
        ctx.check('no-wrap', False, _ob_site(e), 'a counter of the %s decoder may wrap around (%s of %s in [%s, %s]): the decoded length is then not the number of bytes decoded'
                  % (fn, e.get('op'), e.get('value'), e.get('lo'), e.get('hi')))
    ctx.instance('no-wrap', len(decoders))
    if not cmps:
        raise AnalysisBroken('no capacity comparison found in the buffer decoders: the tightness rule would be vacuous')
    ctx.extra['capacity_comparisons'] = len(cmps)
    # reported length
    for t in ts:
        for e in t.evs('st', loc=('S', 'write_size')):
            if e['fn'] not in decoders:
                continue
            acc = (e.get('var_facts') or {}).get('access')
            ro_possible = acc is None or (acc[0] <= RO <= acc[1] and RO not in acc[2])
            ro_certain = acc is not None and acc[0] == acc[1] == RO
            v = e['val']
            if ro_certain:
                ctx.check('length', cval(v) == 0, _ob_site(e), 'a read-only variable reports a non-zero written size')
            elif not ro_possible:
                # the decoded size: the same quantity that indexed the last store of this decoder
                wr_ = [x for x in t.events if x['k'] == 'wr' and x['region'][0] == 'vdata' and x['fn'] == e['fn']]
                # the decoded size: the index of the terminating NUL, or one past the last byte stored
                ok = is_lin(v) and (any(cval(x['val']) == 0 and x['off'] == v for x in wr_) or any(x['off'].addc(1) == v for x in wr_)
                                    or (not v.is_const() and any(x['off'].terms == v.terms for x in wr_)))
                ctx.check('length', ok, _ob_site(e), 'the length handed to the variable callback (%s) is not the decoded length' % (v,))
    # every successful return of a byte decoder has set the reported length on that very path
    from .interp import trace_paths as _tp
    n_succ = 0
    for t in ts:
        for seq in _tp(t.t['trace'], limit=20000, keep=lambda e: (e['k'] in ('enter', 'exit') and e.get('name') in decoders) or (e['k'] == 'st' and e['loc'] == ('S', 'write_size'))):
            inside = None
            stored = False
            for e in seq:
                if e['k'] == 'enter':
                    inside, stored = e['name'], False
                elif e['k'] == 'st' and inside:
                    stored = True
                elif e['k'] == 'exit' and inside == e['name']:
                    r = e.get('ret')
                    if is_lin(r) and t.raw.facts.lower(r) >= 0:
                        n_succ += 1
                        ctx.check('length', stored, 'src/cat.c:%s' % e['name'],
                                  'the %s decoder returns success without reporting the decoded length (a stale size reaches the variable callback)' % e['name'])
                    inside = None
    if n_succ == 0:
        raise AnalysisBroken('no successful decoder return found')
    _grammar(ctx, ('hexbuf', 'string'))
    _decoded(ctx, ('hexbuf', 'string'))


def _decoded(ctx, kinds):
    """on success the variable holds precisely the decoded bytes: every step of the decoder, for every
    input byte in every reachable decoder state, stores what the reference transducer emits - one byte
    at the decoded length, the terminator at the end - for both writable access modes"""
    from . import dfa
    m = ctx.model
    E = m.prog.enums
    for kind in kinds:
        fname = ctx.extra['grammar'][kind]['decoder']
        for mode in ('CAT_VAR_ACCESS_READ_WRITE', 'CAT_VAR_ACCESS_WRITE_ONLY'):
            exq = dfa.Extractor(m, fname, access=E[mode], exact_small=True)
            bad, npairs, ntr = dfa.compare_out(exq, kind)
            ctx.instance('decoded', ntr)
            ctx.extra.setdefault('decoded', {})['%s/%s' % (kind, mode)] = {'decoder': fname, 'product_states': npairs, 'steps_compared': ntr}
            for witness, msg in bad:
                ctx.check('decoded', False, ctx.site(fname, m.fn_line(fname)),
                          'after the text %r (variable %s) the %s decoder %s' % (witness.decode('latin1'), mode, kind, msg))
    return ctx


def _byte_decoders(ts):
    """functions that store decoded bytes one at a time while scanning the argument text"""
    out = set()
    for t in ts:
        by_fn = {}
        for e in t.events:
            if e['k'] == 'wr' and e['region'][0] == 'vdata' and e.get('width') == 1:
                by_fn.setdefault(e['fn'], set()).add(repr(e['off']))
        for fn, offs in by_fn.items():
            if any(not o.lstrip('-').isdigit() for o in offs):
                out.add(fn)
    return out


def c04(ctx):
    m = ctx.model
    ex, ts = _decode_transitions(ctx)
    E = m.prog.enums
    _fail_closed(ctx, ts)
    RO = E['CAT_VAR_ACCESS_READ_ONLY']
    # no wrap-around / overflow while accumulating
    seen = {}
    bdec0 = _byte_decoders(ts)
    for t in ts:
        for e in t.events:
            if e['fn'] in bdec0:
                continue          # the byte-buffer decoders are C05's subject
            if e['k'] == 'wrap' and e.get('op') in ('*', '<<', '+') and len(e['stack']) >= 3:
                seen[(e['line'], e['fn'], 'wrap')] = e
            if e['k'] == 'ob' and e['ob'] in ('sovf', 'shift', 'shift-neg') and len(e['stack']) >= 3:
                key = (e['line'], e['fn'], e['ob'])
                if key not in seen or (seen[key]['ok'] is True and e['ok'] is not True):
                    seen[key] = e
    n_acc = 0
    for (line, fn, kind), e in sorted(seen.items()):
        n_acc += 1
        if kind == 'wrap':
            ctx.check('no-wrap', False, _ob_site(e), 'the 64-bit accumulator may wrap around (%s of %s in [%s, %s])' % (e['op'], e['value'], e.get('lo'), e.get('hi')))
        else:
            ctx.check('no-wrap', e['ok'] is True, _ob_site(e), _ob_msg(e))
    # range table of the validators
    TYPES = {'int8_t': (-128, 127, True, 1), 'int16_t': (-32768, 32767, True, 2), 'int32_t': (-2 ** 31, 2 ** 31 - 1, True, 4),
             'uint8_t': (0, 255, False, 1), 'uint16_t': (0, 65535, False, 2), 'uint32_t': (0, 2 ** 32 - 1, False, 4)}
    SIGNED_TYPES = {E['CAT_VAR_INT_DEC']}
    UNSIGNED_TYPES = {E['CAT_VAR_UINT_DEC'], E['CAT_VAR_NUM_HEX']}
    table = {}
    bdec = _byte_decoders(ts)
    for t in ts:
        for e in t.events:
            if e['k'] != 'wr' or e['region'][0] != 'vdata' or 'val_range' not in e or not e.get('itype') or e['fn'] in bdec:
                continue
            bits, sg = e['itype']
            e['qt'] = '%sint%d_t' % ('' if sg else 'u', bits)
            if e['qt'] not in TYPES:
                continue
            lo, hi, signed, width = TYPES[e['qt']]
            vf = e.get('var_facts') or {}
            ds = vf.get('data_size')
            vt = vf.get('type')
            key = (e['line'], e['fn'])
            table.setdefault(key, []).append((e, ds, vt, t))
    ctx.extra['numeric_store_sites'] = len(table)
    validators = set(fn for (_, fn) in table)
    for t in ts:
        for e in t.evs('conv'):
            if e['fn'] in validators:
                ctx.check('range-table', False, _ob_site(e),
                          'a value in [%s, %s] is narrowed to %d bits before being stored: out-of-range arguments are not rejected' % (e.get('lo'), e.get('hi'), e['bits']))
    for (line, fn), lst in sorted(table.items()):
        e0 = lst[0][0]
        lo, hi, signed, width = TYPES[e0['qt']]
        vlo = min(x[0]['val_range'][0] for x in lst)
        vhi = max(x[0]['val_range'][1] for x in lst)
        ctx.check('range-table', (vlo, vhi) == (lo, hi), _ob_site(e0),
                  'values in [%s, %s] are stored into a %s (range [%s, %s]): the accepted range is not exactly the variable\'s' % (vlo, vhi, e0['qt'], lo, hi))
        for e, ds, vt, t in lst:
            ctx.check('range-table', ds is not None and ds[0] == ds[1] == width, _ob_site(e),
                      'a %d-byte store into a variable whose data_size is %s' % (width, ds))
            ok = vt is not None and all(v in (SIGNED_TYPES if signed else UNSIGNED_TYPES) for v in range(vt[0], vt[1] + 1) if v not in vt[2])
            ctx.check('range-table', ok, _ob_site(e), 'a %s store for variable type %s' % ('signed' if signed else 'unsigned', vt))
            acc = vf.get('access')
            ctx.check('range-table', acc is not None and not (acc[0] <= RO <= acc[1] and RO not in acc[2]), _ob_site(e), 'a read-only variable may be stored')
            # exactness: what is stored is the parsed value itself
            v = e['val']
            ctx.check('exact', is_lin(v) and len(v.terms) == 1 and v.terms[0][1] == 1 and v.const == 0, _ob_site(e), 'the stored value %s is not the parsed value' % (v,))
    if len(table) < 6:
        raise AnalysisBroken('fewer than six numeric store sites found in the validators')
    _grammar(ctx, ('int', 'uint', 'hex'))
    return ctx


def c06(ctx):
    m = ctx.model
    ex, ts = transitions(ctx, 'cmd')
    ctx.assume('command-buffer capacity >= 6 (domain of C03)')
    n_store = 0
    for t in ts:
        if t.frm.endswith('PARSE_COMMAND_ARGS'):
            c = consumed_char(t)
            if c is None or c == ('const', 10) or c == ('const', 13) or (c[0] == 'set' and c[1] <= {10, 13}):
                continue
            # a step that may also have consumed a line end (paths merged because they end alike) says
            # nothing about argument bytes
            may_end = (c[0] == 'not' and not ({10, 13} <= set(c[1]))) or (c[0] == 'set' and (c[1] & {10, 13})) or c[0] == 'any'
            ln = t.pre.mem.get(('S', 'length'))
            ch = t.raw.mem.get(('S', 'current_char'))
            # the byte handed on is the byte read: no case folding in the argument state
            rd = [e for e in t.events if e['k'] == 'io_read' and e['ok']]
            ctx.check('case', rd and rd[0].get('ch') == ch, t.site(), 'argument bytes are modified before they are stored (%s vs %s)' % (ch, rd[0].get('ch') if rd else None))
            if t.to.endswith('PARSE_COMMAND_ARGS'):
                n_store += 1
                wrs = [e for e in t.events if e['k'] == 'wr' and e['region'] == ('BUF',)]
                byte = [e for e in wrs if is_lin(e['off']) and is_lin(ln) and e['off'] == ln and e['val'] == ch]
                nul = [e for e in wrs if is_lin(e['off']) and is_lin(ln) and e['off'] == ln.addc(1) and cval(e['val']) == 0]
                nl = t.raw.mem.get(('S', 'length'))
                ctx.check('no-drop', len(byte) >= 1 and len(nul) >= 1 and is_lin(nl) and nl == ln.addc(1), t.site(),
                          'a consumed argument byte is not appended (stores %s, length %s -> %s)' % ([(str(e['off']), str(e['val'])) for e in wrs], ln, nl))
                cap = ex.model.region_cap(('BUF',), t.raw, m.ms.it)
                ctx.check('tight', cap is not None and t.raw.facts.le(ln.addc(2).sub(cap), 0) is True, t.site(),
                          'a byte is accepted without room for it and its terminator')
            elif t.to.endswith('STATE_ERROR'):
                if may_end:
                    continue
                ctx.extra['rejections_checked'] = ctx.extra.get('rejections_checked', 0) + 1
                cap = ex.model.region_cap(('BUF',), t.raw, m.ms.it)
                # rejected for lack of room: only if byte + NUL really do not fit
                if cap is not None and is_lin(ln):
                    lo = t.raw.facts.lower(ln.addc(2).sub(cap), 2)
                    ctx.check('tight', lo >= 1, t.site(), 'an argument byte is rejected although it fits (length+2-capacity >= %s)' % lo)
            else:
                ctx.check('no-drop', t.to.endswith('WAIT_TEST_ACKNOWLEDGE'), t.site(), 'an argument byte leads from the collecting state to %s' % short(t.to))
        if t.frm.endswith('STATE_ERROR'):
            eff = [e for e in t.events if e['k'] == 'cb' or (e['k'] == 'wr' and e['region'][0] == 'vdata')]
            ctx.check('reject', not eff and (t.to.endswith('STATE_ERROR') or t.to.endswith('FLUSH_IO_WRITE_WAIT')), t.site(),
                      'the drain state has side effects or leads to %s' % short(t.to))
            if t.to.endswith('FLUSH_IO_WRITE_WAIT'):
                ctx.check('reject', set(a['text'] for a in t.acks()) == {'ERROR'}, t.site(), 'a drained line is not answered with ERROR')
        if t.frm.endswith('PARSE_WRITE_ARGS') and t.to.endswith('PARSE_WRITE_ARGS'):
            a, b = t.pre.mem.get(('S', 'index')), t.raw.mem.get(('S', 'index'))
            ctx.check('argc', is_lin(a) and is_lin(b) and b == a.addc(1), t.site(), 'the parsed-variable count moves from %s to %s in one decode step' % (a, b))
        if t.to.endswith('PARSE_WRITE_ARGS') and t.frm.endswith('PARSE_COMMAND_ARGS'):
            ctx.check('argc', cval(t.raw.mem.get(('S', 'index'))) == 0 and cval(t.raw.mem.get(('S', 'position'))) == 0, t.site(), 'decoding does not start at variable 0 / offset 0')
        if t.to.endswith('WRITE_LOOP') and t.frm.endswith('PARSE_COMMAND_ARGS'):
            ctx.check('argc', cval(t.raw.mem.get(('S', 'index'))) == 0, t.site(), 'a command without variables reports a non-zero argument count')
    if not ctx.extra.get('rejections_checked'):
        raise AnalysisBroken('no rejection of an argument byte found: the tightness rule would be vacuous')
    if n_store == 0:
        raise AnalysisBroken('no byte-appending transition found in the argument state')
    # arguments of the handler calls
    for which in ('cmd', 'evt'):
        exx, tss = transitions(ctx, which)
        own = ('BUF',) if which == 'cmd' else None
        base = ('S',) if which == 'cmd' else ('S', 'unsolicited_fsm')
        for t in tss:
            for e in t.evs('cb'):
                a = e['args']
                if e['kind'] == 'cmd.write':
                    ln = t.pre.mem.get(('S', 'length'))
                    ix = t.pre.mem.get(('S', 'index'))
                    ok = isinstance(a[1], tuple) and a[1][0] == 'mem' and a[1][1] == ('BUF',) and cval(a[1][2]) == 0 and a[2] == ln and a[3] == ix
                    ctx.check('args', ok, t.site(e), 'the write handler receives (%s, %s, %s) instead of (buffer, length %s, count %s)' % (a[1], a[2], a[3], ln, ix))
                    term = t.pre.ghost.get(('term', ('BUF',)))
                    ctx.check('term', term is not None and is_lin(ln) and t.pre.facts.eq(term.sub(ln), 0) is True, t.site(e),
                              'the argument text is not NUL-terminated at its length when the write handler runs (NUL at %s, length %s)' % (term, ln))
                elif e['kind'] in ('cmd.read', 'cmd.test'):
                    reg = a[1][1] if isinstance(a[1], tuple) and a[1][0] == 'mem' else None
                    good_reg = reg == ('BUF',) if which == 'cmd' else reg in (('BUFHI',), ('UBUF',))
                    cap = exx.model.region_cap(reg, t.raw, m.ms.it) if reg else None
                    ok = good_reg and cval(a[1][2]) == 0 and a[2] == ('ref', base + ('position',)) and cap is not None and a[3] == cap
                    ctx.check('args', ok, t.site(e), '%s handler of the %s machine receives (%s, %s, %s); expected its own buffer, &position and capacity %s' % (e['kind'], which, a[1], a[2], a[3], cap))
    return ctx


def c08(ctx):
    m = ctx.model
    E = m.prog.enums
    RO, WO, RW = E['CAT_VAR_ACCESS_READ_ONLY'], E['CAT_VAR_ACCESS_WRITE_ONLY'], E['CAT_VAR_ACCESS_READ_WRITE']
    ctx.assume('what user handlers do with variable data is outside the library')
    n_st = 0
    for which in ('cmd', 'evt'):
        ex, ts = transitions(ctx, which)
        varloc = ('S', 'var') if which == 'cmd' else ('S', 'unsolicited_fsm', 'var')
        for t in ts:
            for e in t.events:
                if e['k'] == 'wr' and e['region'][0] == 'vdata':
                    n_st += 1
                    acc = (e.get('var_facts') or {}).get('access')
                    ok = acc is not None and not (acc[0] <= RO <= acc[1] and RO not in acc[2])
                    ctx.check('ro-store', ok, _ob_site(e), 'variable storage is written without excluding read-only access (access %s)' % (acc,))
                if e['k'] == 'st' and e['loc'][-1] == 'write_size':
                    acc = (e.get('var_facts') or {}).get('access')
                    if acc is not None and acc[0] == acc[1] == RO:
                        ctx.check('ro-size', cval(e['val']) == 0, _ob_site(e), 'a read-only variable reports %s written bytes' % (e['val'],))
            # write-only: nothing loaded from the variable reaches the output or a decision
            if 'FORMAT_READ_ARGS' in t.frm and 'AFTER' not in t.frm:
                vname = 'VAR' if which == 'cmd' else 'UVAR'
                acc = t.raw.facts.iv.get(vname + '.access', (RW, WO))
                wo_possible = acc[0] <= WO <= acc[1] and WO not in t.raw.facts.ex.get(vname + '.access', ())
                if not wo_possible:
                    continue
                # on a path that is possible for a write-only variable nothing loaded from it may matter
                used = _tainted_use(t, which)
                ctx.check('wo-flow', not used, t.site(), 'contents of a write-only variable can influence the output: %s' % (used[:3],))
    ctx.extra['variable_store_events'] = n_st
    # gates: formatting needs something readable, decoding something writable
    for t in transitions(ctx, 'cmd')[1]:
        preds = [e for e in t.events if e['k'] == 'exit' and e['name'] in _access_predicates(ctx)]

        def said(e, truth):
            # what the predicate returned on this transition: a constant, or a value the path pins down
            r = e['ret']
            if not is_lin(r):
                return False
            if r.is_const():
                return (r.const != 0) == truth
            return t.raw.facts.lower(r) >= 1 if truth else t.raw.facts.upper(r) <= 0
        if t.to.endswith('STATE_FORMAT_READ_ARGS') and not t.frm.endswith('FORMAT_READ_ARGS'):
            ctx.check('gates', any(said(e, True) for e in preds), t.site(), 'READ formatting starts without a readable variable')
        if t.to.endswith('STATE_PARSE_WRITE_ARGS') and t.frm.endswith('PARSE_COMMAND_ARGS'):
            ctx.check('gates', any(said(e, True) for e in preds), t.site(), 'WRITE decoding starts without a writable variable')
        if t.to.endswith('STATE_READ_LOOP') and t.frm.endswith('COMMAND_FOUND'):
            ctx.check('gates', all(said(e, False) for e in preds) and preds, t.site(), 'the read handler loop is entered past readable variables')
    _access_predicate_table(ctx)
    return ctx


def _tainted_use(t, which):
    """uses of atoms loaded from variable storage: as output, or refined by a branch"""
    taint = set(e['atom'] for e in t.events if e['k'] == 'rd' and e['region'][0] == 'vdata' and e.get('atom'))
    if not taint:
        return []
    used = []
    f = t.raw.facts
    for a in taint:
        rng = t.ex.it.atom_range.get(a)
        if a in f.ex or (a in f.iv and rng is not None and f.iv[a] != rng):
            used.append('branch on %s' % a)
        for key in f.ub:
            if any(x == a for x, _ in key):
                used.append('comparison of %s' % a)
    for e in t.events:
        vals = []
        if e['k'] == 'bytecmp' and e.get('src') and e['src'][0][0] == 'vdata':
            used.append('branch on a byte of the variable (compared with %s)' % e['const'])
        if e['k'] == 'fmt':
            vals = e.get('args') or []
        elif e['k'] == 'copy':
            vals = [e.get('srcval')]
            if isinstance(e.get('src'), tuple) and e['src'][0] == 'mem' and e['src'][1][0] == 'vdata':
                used.append('copy from variable storage')
        elif e['k'] == 'wr' and e['region'][0] in ('BUF', 'BUFHI', 'UBUF'):
            vals = [e.get('val')]
        for v in vals:
            if is_lin(v) and any(a in taint for a, _ in v.terms):
                used.append('%s of %s' % (e['k'], v))
    return used


def _access_predicates(ctx):
    """functions that decide whether a command has a variable of a requested access kind"""
    c = ctx.extra.get('_preds')
    if c is not None:
        return c
    m = ctx.model
    out = set()
    for name, fn in m.prog.functions.items():
        ps = fn['_params']
        if len(ps) == 3 and ps[2]['type']['qualType'] == 'cat_var_access' and fn['type']['qualType'].startswith(('bool', '_Bool')):
            out.add(name)
    if not out:
        raise AnalysisBroken('anchor vanished: variable access predicate')
    ctx.extra['_preds'] = out
    return out


def _access_predicate_table(ctx):
    """what the predicate computes, on a small scope: variable tables of 0-3 entries with every
    combination of access modes, for both requested kinds; the body is interpreted with the table pinned
    and the loop unrolled and must answer "some entry is read-write or of the requested kind" """
    import itertools
    m = ctx.model
    E = m.prog.enums
    RW, RO, WO = E['CAT_VAR_ACCESS_READ_WRITE'], E['CAT_VAR_ACCESS_READ_ONLY'], E['CAT_VAR_ACCESS_WRITE_ONLY']
    it = m.ms.it
    old = (it.pin_names, it.unroll)
    it.pin_names, it.unroll = True, 8
    n = 0
    try:
        for p in _access_predicates(ctx):
            site = ctx.site(p, m.fn_line(p))
            bad = 0
            for want in (RO, WO):
                for k in range(0, 4):
                    for modes in itertools.product((RW, RO, WO), repeat=k):
                        def setup(s, modes=modes, k=k):
                            s.pnull['XC'] = False
                            s.facts.iv['XC.var_num'] = (k, k)
                            for i, a in enumerate(modes):
                                s.facts.iv['XC.var[%d].access' % i] = (a, a)
                        outs = m.run(p, [SELF, ('obj', 'XC'), Lin.c(want)], setup=setup)
                        got = sorted(set(cval(rv) if cval(rv) is not None else str(rv) for s, rv in outs), key=str)
                        exp = 1 if any(a in (RW, want) for a in modes) else 0
                        n += 1
                        if got != [exp] and bad < 3:
                            bad += 1
                            ctx.check('gates', False, site, 'for a table with access modes %s and requested kind %s the access predicate returns %s (expected %d)'
                                      % (list(modes), want, got, exp))
            # a command without a table has nothing accessible
            def setup0(s):
                s.pnull['XC'] = False
                s.pnull['XC.var'] = True
            for want in (RO, WO):
                outs = m.run(p, [SELF, ('obj', 'XC'), Lin.c(want)], setup=setup0)
                got = sorted(set(cval(rv) for s, rv in outs), key=str)
                n += 1
                ctx.check('gates', got == [0], site, 'without a variable table the access predicate returns %s' % got)
    finally:
        it.pin_names, it.unroll = old
    ctx.instance('gates', n)
    ctx.extra['access_predicate_cases'] = n


RULES = {'C03': c03, 'C04': c04, 'C05': c05, 'C06': c06, 'C08': c08}


# ------------------------------------------------------------------------------------- grammar (C04, C05)
def _grammar(ctx, kinds):
    """the decoders of the given kinds accept exactly the language of the property, for texts of every length"""
    from . import dfa
    m = ctx.model
    E = m.prog.enums
    decs = dfa.find_decoders(m.prog)
    if len(decs) < 2:
        # (one decoder may serve several variable types; what must exist is a decoder for every type - checked below)
        raise AnalysisBroken('anchor vanished: only %d argument decoders found (%s)' % (len(decs), decs))
    # which decoder serves which variable type: from the dispatch in the write-argument step
    ex, ts = _decode_transitions(ctx)
    by_type = {}
    for t in ts:
        for e in t.evs('switch'):
            pass
    from .interp import trace_paths
    for t in ts:
        for seq in trace_paths(t.t['trace'], limit=20000, keep=lambda e: e['k'] in ('switch', 'enter')):
            lab = None
            for e in seq:
                if e['k'] == 'switch' and is_lin(e['value']) and e['value'].single() and e['value'].single()[0].endswith('.type'):
                    lab = e['label']
                elif e['k'] == 'enter' and e['name'] in decs and lab is not None:
                    by_type.setdefault(lab, set()).add(e['name'])
                    lab = None
        if len(by_type) >= 5:
            break
    names = {E['CAT_VAR_INT_DEC']: 'int', E['CAT_VAR_UINT_DEC']: 'uint', E['CAT_VAR_NUM_HEX']: 'hex',
             E['CAT_VAR_BUF_HEX']: 'hexbuf', E['CAT_VAR_BUF_STRING']: 'string'}
    done = 0
    for tval, kind in names.items():
        if kind not in kinds:
            continue
        fns = by_type.get(tval)
        if not fns or len(fns) != 1:
            raise AnalysisBroken('cannot tell which decoder serves variable type %s (%s)' % (kind, fns))
        fname = next(iter(fns))
        exq = dfa.Extractor(m, fname)
        ref, regex = dfa.REFS[kind]
        bad, npairs, ntr, nstates = dfa.compare(exq, ref)
        done += 1
        ctx.instance('grammar', ntr)
        ctx.extra.setdefault('grammar', {})[kind] = {'decoder': fname, 'abstract_states': nstates, 'product_states': npairs, 'transitions_compared': ntr, 'language': regex}
        for witness, msg in bad:
            ctx.check('grammar', False, ctx.site(fname, m.fn_line(fname)),
                      'after the text %r the %s decoder disagrees with the grammar %s: %s' % (witness.decode('latin1'), kind, regex, msg))
        if not bad:
            ctx.sample({'decoder': fname, 'language': regex, 'product_states': npairs, 'bytes_per_state': 256})
    return done
