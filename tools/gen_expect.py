#!/usr/bin/env python3
"""write catsa/expect.json: per property the explanation shown in the evidence and the instance floors
(a rule that matches far fewer sites than on the tree on which it was confirmed must not pass vacuously)"""
import json, os, sys
sys.path.insert(0, '/verif/tools')
from gen_manifest import CLAIMED
out = {}
for pid, c in CLAIMED.items():
    ev = json.load(open('/verif/evidence/%s.json' % pid))
    floors = {}
    for rid, n in ev['coverage']['rule_instances'].items():
        if rid.endswith('-dontcare'):
            continue
        # a guard against vacuity, not a fingerprint of the tree: counts of paths and transitions move a lot
        # under behaviour-preserving restructuring (a dispatcher moved into a helper merges paths)
        floors[rid] = max(1, n // 50)
    out[pid] = {'explanation': c['technique'] + '. ' + c['text'], 'floors': floors}
json.dump(out, open('/verif/catsa/expect.json', 'w'), indent=1, sort_keys=True)
print('floors for', len(out), 'properties')
