#!/usr/bin/env python3
"""run a batch of single-edit mutants against checks, in parallel. usage: mutrun.py file.py  (defines MUTANTS=[(name, [props], old, new)])"""
import sys, os, shutil, subprocess, concurrent.futures as cf
ns={}
exec(open(sys.argv[1]).read(), ns)
MUT=ns['MUTANTS']
only=sys.argv[2:] 
def run(m):
    name, props, old, new = m
    d='/tmp/mrepo_%s'%name
    shutil.rmtree(d, ignore_errors=True); os.makedirs(d)
    for x in ('src','CMakeLists.txt','example','tests'):
        if os.path.isdir('/repo/'+x): shutil.copytree('/repo/'+x, d+'/'+x)
        else: shutil.copy('/repo/'+x, d+'/'+x)
    p=d+'/src/cat.c'; s=open(p).read()
    if s.count(old)!=1: return name, 'PATTERN count %d'%s.count(old), ''
    open(p,'w').write(s.replace(old,new))
    r=subprocess.run(['gcc','-c','-O2','-DNDEBUG','-Wall','-Wextra','-pedantic','-Werror','-I'+d+'/src',p,'-o',d+'/cat.o'],capture_output=True,text=True)
    if r.returncode: return name,'NOCOMPILE',r.stderr[-300:]
    out=[]
    env=dict(os.environ, CATSA_REPO=d, CATSA_JOBS=os.environ.get('CATSA_JOBS','4'), CATSA_EVID=d+'/evid', CATSA_CACHE=d+'/cache')
    res=[]
    for pr in props:
        r=subprocess.run(['/verif/check',pr],capture_output=True,text=True,env=env,timeout=3000)
        lines=[l for l in r.stdout.splitlines() if l.strip()]
        res.append('%s rc=%d'%(pr,r.returncode))
        out.append('\n'.join('      '+l[:260] for l in lines[:4]+lines[-2:-1]))
    shutil.rmtree(d, ignore_errors=True)
    return name,' '.join(res),'\n'.join(out)
ms=[m for m in MUT if not only or m[0] in only]
with cf.ThreadPoolExecutor(int(os.environ.get("MUT_PAR","4"))) as ex:
    for name,res,out in ex.map(run, ms):
        print('==',name,res); print(out)
