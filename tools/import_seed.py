#!/usr/bin/env python3
"""copy a confirmed seeded defect (patch, demonstration, what was run) into /verif/seeded/<id>/"""
import json, os, shutil, sys
sd, sid = sys.argv[1], sys.argv[2]
res = json.load(open(os.path.join(sd, 'result.json')))
if not res.get('confirmed'):
    print('not confirmed:', sid); sys.exit(1)
dst = os.path.join('/verif/seeded', sid)
os.makedirs(dst, exist_ok=True)
for f in ('patch.diff', 'demo.c', 'README.txt'):
    shutil.copy(os.path.join(sd, f), os.path.join(dst, f))
readme = open(os.path.join(sd, 'README.txt')).read()
fired = sorted(p for p, v in res['checks'].items() if v['rc'] == 1)
meta = {
    'id': sid,
    'breaks_property': res['property'],
    'origin': 'independent sub-agent given only the property text and its own worktree of /repo',
    'needs_to_manifest': readme.strip().split('\n\n')[0][:1500],
    'confirmed_by': {
        'demo_exit_on_unchanged_tree': res['steps']['demo_on_original'],
        'demo_exit_with_patch': res['steps']['demo_on_patched'],
        'compiles_with_Werror_Wall_Wextra_pedantic': res['steps']['compiles_werror'] == 0,
        'unedited_suite_passes_with_patch': res['steps']['suite_ok'],
        'how': 'tools/seedtest.py on a scratch copy of /repo (never /repo itself)',
    },
    'checks_that_fire': fired,
    'target_check_fires': res['property'] in fired,
    'first_report': {p: res['checks'][p]['first'][:2] for p in fired},
    'checks_analysis_broken': sorted(p for p, v in res['checks'].items() if v['rc'] not in (0, 1)),
}
json.dump(meta, open(os.path.join(dst, 'meta.json'), 'w'), indent=1)
print(sid, 'target', res['property'], 'fires', fired)
