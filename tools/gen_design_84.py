#!/usr/bin/env python3
"""Rewrite section 8.4 of DESIGN.md (seeded defects, mutants, refactors) from the recorded results:
seeded/*/meta.json, refactors/*/result.json, mutants/revert_results.json and a mutant log if given.

usage: gen_design_84.py [mutants.log]
"""
import json
import os
import re
import subprocess
import sys

V = '/verif'


def seed_rows():
    rows, stats = [], {'n': 0, 'any': 0, 'target': 0, 'target_nv': 0, 'none': []}
    for sid in sorted(os.listdir(V + '/seeded')):
        mp = os.path.join(V, 'seeded', sid, 'meta.json')
        if not os.path.exists(mp):
            continue
        m = json.load(open(mp))
        first = open(os.path.join(V, 'seeded', sid, 'README.txt')).read().strip().splitlines()
        what = ' '.join(x.strip() for x in first[:3])[:150].replace('|', '/')
        nv = m.get('checks_analysis_broken', [])
        fired = m['checks_that_fire']
        tgt = 'yes' if m['breaks_property'] in fired else ('no verdict' if m['breaks_property'] in nv else 'no')
        stats['n'] += 1
        stats['any'] += bool(fired)
        if not fired:
            stats['none'].append('`%s`' % sid)
        stats['target'] += tgt == 'yes'
        stats['target_nv'] += tgt == 'no verdict'
        rows.append('| `%s` | %s | %s | %s | %s | %s |' % (sid, m['breaks_property'], what, ', '.join(fired) or '-', tgt, ', '.join(nv) or '-'))
    return rows, stats


def refactor_rows():
    rows = []
    for name in sorted(os.listdir(V + '/refactors')):
        rp = os.path.join(V, 'refactors', name, 'result.json')
        if not os.path.exists(rp):
            continue
        r = json.load(open(rp))
        desc = open(os.path.join(V, 'refactors', name, 'README.txt')).read().strip().splitlines()[0][:170] if os.path.exists(os.path.join(V, 'refactors', name, 'README.txt')) else ''
        al = sorted(p for p, v in r['checks'].items() if v['rc'] == 1)
        nv = sorted(p for p, v in r['checks'].items() if v['rc'] not in (0, 1))
        rows.append('| `%s` | %s | %s | %s | %s |' % (name, desc.replace('|', '/'), 'yes' if r.get('suite_ok_debug_build') else 'NO', ', '.join(al) or '-',
                                                   ('all' if len(nv) == len(r['checks']) else ', '.join(nv)) or '-'))
    return rows


def mutant_summary(log):
    if not log or not os.path.exists(log):
        return None
    tot = det = 0
    silent = []
    for line in open(log):
        if line.startswith('== '):
            parts = line.split()
            name = parts[1]
            tot += 1
            if len(parts) >= 4 and parts[3] == 'rc=1':      # the first listed check is the one aimed at
                det += 1
            else:
                silent.append(name)
    return tot, det, silent


def main():
    rows, st = seed_rows()
    rr = refactor_rows()
    ms = mutant_summary(sys.argv[1] if len(sys.argv) > 1 else V + '/validation/mutants.log')
    rev = json.load(open(V + '/mutants/revert_results.json'))
    out = []
    out.append('### 8.4 Seeded defects, hand-written mutants, refactors\n')
    out.append('**Independent seeded defects** (`/verif/seeded/<id>/`: `patch.diff`, `demo.c`, `README.txt` of\n'
               'the author, `meta.json`). Each was produced by a fresh sub-agent that saw only the text of\n'
               'one property (from the second round on also the summaries of the seeds that already existed\n'
               'for it, so as not to repeat them) and its own scratch worktree of `/repo`; it was asked for a\n'
               'change that compiles with the library\'s warning flags, passes the unedited suite and needs\n'
               'something specific to manifest, together with a demonstration. Each was confirmed here with\n'
               '`tools/seedtest.py` on a scratch copy (demonstration passes on the unchanged tree, patch\n'
               'compiles with `-Werror -Wall -Wextra -pedantic`, the 30 tests pass, demonstration fails with\n'
               'the patch) before the checks were run against the patched copy (`CATSA_REPO`), never against\n'
               '`/repo`. After every batch of changes to the engine or the rules the corpus is re-run\n'
               '(`tools/regress.py`); the table shows the last run of each seed (the last pass over all seeds of\n'
               'rounds 1-4 preceded the final additions to C14, C15, C18 and C20, which were then run on the\n'
               'seeds they concern, on rounds 5-6 and on every refactor; the seeds of round 7 - ids s7, s8 and\n'
               '`C17_s5`, `C17_s6` - were run against all twenty checks with the rules of the last session). "Target check" says whether the check of\n'
               'the property the author aimed at reports a violation; "no verdict" means that it ended with\n'
               '`ANALYSIS-BROKEN` (exit 2) - typically because the change makes one machine write the other\'s\n'
               'fields, which C11 reports and which voids the per-machine analysis of the others (8.1).\n'
               'Several defects violate more than one property and are then reported by those checks as well.\n')
    out.append('%d seeds; %d are reported by at least one check, %d by the check of the targeted property, %d more end that check without a verdict.%s\n'
               % (st['n'], st['any'], st['target'], st['target_nv'], '' if st['any'] == st['n'] else ' Not reported by any check: ' + ', '.join(st['none']) + '.'))
    out.append('| seed | targets | change (from the author\'s README) | checks that report a violation | target check | checks without a verdict |')
    out.append('|---|---|---|---|---|---|')
    out.extend(rows)
    out.append('')
    out.append(STRENGTHENED)
    out.append('**Re-introduced repaired defects** (`mutants/revert_<commit>.diff`, `tools/reverttest.py`):\n'
               'each of F1-F5 applied in reverse on a scratch copy is reported again by the check of its\n'
               'property: ' + ', '.join('%s -> %s rc %d' % (c, v['property'], v['rc']) for c, v in rev.items()) + '.\n')
    if ms:
        out.append('**Hand-written mutants** (`mutants/handwritten.py`, %d single edits used while writing the\n'
                   'rules, `tools/mutrun.py`): %d are reported by the check they aim at; silent: %s - an equivalent\n'
                   'mutant (removing the `hold` branch of `reset_state` changes no reachable behaviour because a\n'
                   'result code is only loaded after the flag has been cleared).\n' % (ms[0], ms[1], ', '.join('`%s`' % x for x in ms[2]) or 'none'))
    out.append('**Behaviour-preserving refactors** (`refactors/<name>/`: `patch.diff`, `README.txt`, `result.json`;\n'
               '`tools/refactortest.py` applies each to a scratch copy, runs the suite in `Debug`, then all twenty\n'
               'checks). A violation reported on one of these is a false alarm by construction; every one\n'
               'met was traced and removed (8.1, 8.3). `R23_field_rename` renames two fields that the\n'
               'properties\' anchors name: the expected outcome is "no verdict" everywhere, never a violation.\n')
    out.append('| refactor | what | suite passes | checks reporting a violation | checks without a verdict |')
    out.append('|---|---|---|---|---|')
    out.extend(rr)
    out.append('')
    text = '\n'.join(out) + '\n'
    d = open(V + '/DESIGN.md').read()
    a = d.index('### 8.4 Seeded defects')
    b = d.index('### 8.5 Measurements')
    open(V + '/DESIGN.md', 'w').write(d[:a] + text + d[b:])
    print('8.4 rewritten:', st, len(rr), 'refactors', ms)


STRENGTHENED = """Checks strengthened because a seeded defect was first missed or first reported for the wrong
reason (a rule was added or the engine corrected; nothing was loosened): C04/C05 `grammar` (a sign
without digits was accepted: the decoder automata are extracted and compared with the reference
languages), C09 `disable-gate` for the implicit-write cut, C10 `var-callback` (continuing after a
variable callback requires a result entailed to be zero), C02 `tie-break` (the candidate counter must
be `old + 1` exactly; the explorer treats every unsigned field as numeric so that a narrowed counter
no longer explodes the partition), C20 `cr-sticky`, C11 `disjoint-extents` and `independent`, C10
list start, C08 branches on variable bytes, C15 output-only livelocks (lexicographic ranking), C05
`length` on every success path, C19 cursor start, queue capacity 3 in the quick tier, C05 `decoded`
(transducer: a wrong enumerator in one branch left bytes of write-only strings undecoded), C05
`no-wrap`, C14 `release-once` for the event machine, C18 `hold-while-parked`, C02 implicit-write
gate, C17 `no-self-deadlock`, C03 var-cursor obligation and ring ranges, C19 `order` (`var_num >= 1`),
the interpreted environment actions and the separation side-condition (8.1). Round 7 (twenty more
seeds for C01, C04, C06, C07, C10, C12, C13, C15, C17, C19): four changes used syntax or library
functions the unit does not contain (`sizeof`, pointer `++`, `strcspn`) and every check ended
without a verdict; the engine was extended (8.1) and all four are now reported (`C04_s8`, `C19_s7`,
`C19_s8` by the target check, `C07_s8` by C05 `decoded` and C03). `C17_s5` (check-then-act across two
critical sections) and `C17_s6` (return with the lock held) were reported by C16 only: C17 `atomic`
and `released` were added. `C19_s7` led to the `snprintf` clause of C19 `no-truncation`, placed before
the table extraction, and to the summary "snprintf terminates a local array" (without it C03
reported the following `strlen` for a wrong reason). C07 `identity` was added on our own initiative
(hand-written mutant `load - 1` in `format_int_decimal`). `C15_s7` (an idle event machine
that leaves a queued event where it is) was reported by C13 `ring`, C11 and C14 but counted as a
legitimate wait by C15 `progress`: an idle step with a non-empty queue and no effect is now a
violation of C15 as well. Reports that were
consequences of a wrong model rather than of the change (C01, C10, C15, C20 on `C18_s4`; C04 on
`C07_s3`; C06 on `C01_s2`; C03 on `C05_s3`) disappeared with those corrections.
"""

if __name__ == '__main__':
    main()
