#!/usr/bin/env python3
"""print the markdown table of seeded defects (seeded/*/meta.json) for DESIGN.md 8.4"""
import json, os
base = '/verif/seeded'
rows = []
for sid in sorted(os.listdir(base)):
    m = json.load(open(os.path.join(base, sid, 'meta.json')))
    first = open(os.path.join(base, sid, 'README.txt')).read().strip().splitlines()
    what = ' '.join(first[:3])[:170].replace('|', '/')
    nv = m.get('checks_analysis_broken', [])
    tgt = 'yes' if m['target_check_fires'] else ('no verdict' if m['breaks_property'] in nv else 'no')
    rows.append('| `%s` | %s | %s | %s | %s | %s |' % (sid, m['breaks_property'], what, ', '.join(m['checks_that_fire']) or '—', tgt, ', '.join(nv) or '—'))
print('| seed | targets | change (from the author\'s README) | checks that report a violation | target check | checks without a verdict (exit 2) |')
print('|---|---|---|---|---|---|')
print('\n'.join(rows))
