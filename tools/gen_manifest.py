#!/usr/bin/env python3
"""Regenerate MANIFEST.json from the table below (kept next to the code so that the two do not drift)."""
import json, os
HERE = os.path.dirname(os.path.dirname(os.path.abspath(__file__)))
props = [json.loads(l) for l in open(os.path.join(HERE, 'properties.jsonl'))]

CLAIMED = {
 'C16': dict(technique='typestate (lock bracket) over every path of each exported function, callees opaque; call-graph who-may-lock',
             text='Every path of every exported function is enumerated on the type-checked AST (non-exported callees summarised as opaque effects): first effect is the lock, a failed lock returns ERROR_MUTEX_LOCK with an empty effect trace, exactly one unlock ends the region, nothing follows it; call-graph rule: nobody reachable from a locked region locks; every other exported function is store- and callback-free. Holds for every call independently of history, so fault sequences need no enumeration.',
             note='Assumes the callback contract of cat.h (mutex callbacks set together; callbacks do not re-enter the locking API while it is held). Trusted: clang front end, catsa interpreter, call-graph construction.',
             ref='DESIGN.md 4/C16'),
 'C17': dict(technique='static lockset (Eraser discipline) over the effect traces of the locking API',
             text='Race-freedom clause only: every load/store of mutable parser state and every callee that may touch it, in each function of the locking API, occurs with the lock held on every path; no lock-free exported function reaches a store. With a correct mutex this excludes data races among those functions for every interleaving. Delivery exactly-once is C13 with atomic bodies.',
             note='Decides the lockset clause, not scheduler behaviour; observers documented as lock-free and cat_init are excluded as in the property. Memory-model questions inside the user mutex are trusted.',
             ref='DESIGN.md 4/C17'),
 'C18': dict(technique='exhaustive abstract evaluation of the busy/hold predicates over all 25x11 state pairs',
             text='cat_is_busy is interpreted for every (command state, event state) pair with all other fields unknown: BUSY is required whenever a line is in progress or an event line is being emitted, OK for the quiescent pair; cat_is_hold must be HOLD iff the hold flag and depend on nothing else. The state space of the predicate is finite and enumerated completely.',
             note='"partially emitted" is read as: the event machine is in its byte-emitting state. Trusted: interpreter transfer functions.',
             ref='DESIGN.md 4/C18'),
}

def main():
    checks = []
    for p in props:
        c = CLAIMED.get(p['id'])
        if not c:
            continue
        checks.append({
            'property_id': p['id'],
            'quick_cmd': './check %s --tier quick' % p['id'],
            'thorough_cmd': './check %s --tier thorough' % p['id'],
            'evidence_file': 'evidence/%s.json' % p['id'],
            'replay_cmd_template': './check replay {path}',
            'engine': 'catsa',
            'level_claimed': {'category': 'other', 'text': c['text'], 'design_ref': c['ref']},
            'level_note': c['note'],
            'technique': c['technique'],
        })
    na = [{'property_id': p['id'], 'reason': 'check under construction in this session; planned static rules are in DESIGN.md section 4'}
          for p in props if p['id'] not in CLAIMED]
    m = {
        'version': 1,
        'setup_cmd': 'python3 -m compileall -q catsa && ./check warm',
        'hooks': {'guard': 'MARCINBOR85_CAT_VERIF',
                  'enable': 'none needed: the analysis reads the unmodified sources; there are no hook commits',
                  'baseline_off_cmd': 'cmake -S /repo -B /repo/_build -G Ninja >/dev/null && cmake --build /repo/_build && ctest --test-dir /repo/_build -j8 --timeout 900',
                  'source_commits': [], 'add_only': True},
        'engines': [{'name': 'catsa', 'path': 'catsa/', 'serves_properties': sorted(CLAIMED),
                     'kind_free_text': 'custom static analyser over the clang-14 type-checked AST: path-sensitive abstract interpreter (linear forms, intervals, typestate), extraction of the two state machines, rule sets per property'}],
        'checks': checks,
        'not_applicable': na,
        'notes': 'Five genuine defects of the pinned tree were repaired by fix: commits in /repo (see known_findings.json and DESIGN.md section 5).',
    }
    json.dump(m, open(os.path.join(HERE, 'MANIFEST.json'), 'w'), indent=1)

if __name__ == '__main__':
    main()
