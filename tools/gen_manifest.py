#!/usr/bin/env python3
"""Regenerate MANIFEST.json from the table below (kept next to the code so that the two do not drift)."""
import json, os
HERE = os.path.dirname(os.path.dirname(os.path.abspath(__file__)))
props = [json.loads(l) for l in open(os.path.join(HERE, 'properties.jsonl'))]

CLAIMED = {
 'C16': dict(technique='typestate (lock bracket) over every path of each exported function, callees opaque; call-graph who-may-lock',
             text='Every path of every exported function is enumerated on the type-checked AST (non-exported callees summarised as opaque effects): first effect is the lock, a failed lock returns ERROR_MUTEX_LOCK with an empty effect trace, exactly one unlock ends the region, nothing follows it; call-graph rule: nobody reachable from a locked region locks; every other exported function is store- and callback-free. Holds for every call independently of history, so fault sequences need no enumeration.',
             note='Assumes the callback contract of cat.h (mutex callbacks set together; callbacks do not re-enter the locking API while it is held). Trusted: clang front end, catsa interpreter, call-graph construction.',
             ref='DESIGN.md 4/C16'),
 'C17': dict(technique='static lockset (Eraser discipline), lock typestate and critical-section shape over the effect traces of the locking API',
             text='Race-freedom clause only: every load/store of mutable parser state and every callee that may touch it, in each function of the locking API, occurs with the lock held on every path; no lock-free exported function reaches a store. With a correct mutex this excludes data races among those functions for every interleaving. No path of a locking API function returns with the lock held, takes it again while holding it, or decides in one critical section and acts (calls a state-writing function) in a later one that is conditional on the first (check-then-act). Delivery exactly-once is C13 with atomic bodies.',
             note='Decides the lockset clause, not scheduler behaviour; observers documented as lock-free and cat_init are excluded as in the property. Memory-model questions inside the user mutex are trusted.',
             ref='DESIGN.md 4/C17'),
 'C18': dict(technique='exhaustive abstract evaluation of the busy/hold predicates over all 25x11 state pairs',
             text='cat_is_busy is interpreted for every (command state, event state) pair with all other fields unknown: BUSY is required whenever a line is in progress or an event line is being emitted, OK for the quiescent pair; cat_is_hold must be HOLD iff the hold flag and depend on nothing else. The state space of the predicate is finite and enumerated completely.',
             note='"partially emitted" is read as: the event machine is in its byte-emitting state. Trusted: interpreter transfer functions.',
             ref='DESIGN.md 4/C18'),
 'C01': dict(technique='typestate (LF / ACKED / LINE history bits) by dataflow over the command machine extracted from the source',
             text='The command state machine is extracted from cat_service by abstract interpretation on every run; a forward dataflow over its abstract-state graph tracks whether the last consumed byte of the line was LF, whether the line was answered, and whether a line is in progress. Every transition that loads a result code must have LF true and no earlier answer; nothing is read and no handler runs between the answer and the return to idle; no byte is read after the terminating LF; idle is re-entered only after an answer; idle skips only LF/CR. All input bytes, tables and buffer sizes are covered at once because the transitions are enumerated symbolically.',
             note='Handlers eventually return a terminal code; an event handler does not return HOLD (O1). Trusted: extraction (abstract interpreter, joins), the recognition of a result code as a copy of the literal OK/ERROR to the start of the command buffer.',
             ref='DESIGN.md 4/C01'),
 'C11': dict(technique='who-may-write, guard-dominance and stage typestate over both extracted machines',
             text='io->write occurs only in transitions leaving each machine\'s FLUSH_IO_WRITE state; every store of FLUSH_IO_WRITE into a machine\'s state carries the path fact that the other machine is not flushing (inductive mutual exclusion, in the order the machines step); the flushing state is left only at the NUL of the last stage towards the continuation fixed at flush start; stage changes reset the cursor and point at the right buffer; no buffer write or handler runs while a unit is pending or being emitted; each machine writes only its own buffer region and none of the other machine\'s fields.',
             note='Callback contract (buffer left NUL-terminated inside max_data_size; event handlers do not return HOLD). Byte-for-byte content of units is not compared with an executed run.',
             ref='DESIGN.md 4/C11'),
 'C12': dict(technique='stutter-step effect analysis on every extracted transition; who-may-call for the io roles',
             text='A step whose io->read found no byte, or whose io->write was refused, has an empty effect set and keeps the state (so retrying is the only consequence); an accepted write advances exactly the cursor by one and the byte handed over is write_buf[position] (provenance of the loaded byte); at most one read and one write per machine step; io roles are called from one reader and the two flushers only; the event machine never reads. Hence outputs and handler calls are a function of the input stream and timing only inserts stutter steps.',
             note='io->read writes *ch only when it reports a byte (cat.h). Relative order between event units and response units legitimately depends on timing and is not claimed.',
             ref='DESIGN.md 4/C12'),
 'C14': dict(technique='invariants over the extracted command machine plus deep interpretation of cat_hold_exit',
             text='With the hold flag set no transition reads input or answers except the release step; the HOLD handler does nothing while the status is 0 and otherwise clears the flag and answers exactly once with OK iff status>0; entering the hold clears a stale status and parks the machine; idle is never entered with the flag set; cat_hold_exit outside a hold returns ERROR_NOT_HOLD with an empty store set and inside a hold stores only +/-1; the event machine reads the flag only to record a release.',
             note='HOLD returned by an event handler is outside the statement (O1). cat_is_hold itself is C18.',
             ref='DESIGN.md 4/C14'),
 'C15': dict(technique='effect analysis of OK-returning paths, abstract replay of the status merge per event-step outcome class, SCC ranking witnesses on the silent-step graph',
             text='(a) every command-machine step that lets cat_service return OK is a reading handler whose read failed and changed nothing; (b) the tail of cat_service is re-interpreted for every outcome class of an event step (returned status, next event state, queue provably empty or not) for queue capacities 1,2,3 (quick) / 1,2,3,5,8 (thorough): OK requires idle and empty; (c) every strongly connected component of steps that consume no stimulus (input byte, queued event, handler result; emitting output is not a stimulus) carries a lexicographic strictly increasing cursor, so neither a silent nor an output-only livelock exists; (d) both dispatchers have a case for every enumerator.',
             note='Fair io schedule and terminating handlers are assumed as in the property. Linear step bound is reported through the ranking cursors, not separately proven.',
             ref='DESIGN.md 4/C15'),
 'C20': dict(technique='reaching-definitions (stale-field) dataflow with idle as cut point, sibling agreement of the CR handlers, selector table',
             text='Per-line fields are marked stale at idle; a load of a stale field before a store on any continuation is a violation, so nothing of an earlier line can influence a later one; the flags carried by value (cr_flag, implicit_write_flag, hold flag) are constant false on every edge into idle; every reading state reacts to CR by setting only cr_flag (idle ignores it); newline text is spelled in one selector only, which returns CRLF iff cr_flag.',
             note='Variable values and handler behaviour are part of a line\'s input. Event lines use the current line\'s flag (not claimed).',
             ref='DESIGN.md 4/C20'),
 'C03': dict(technique='abstract interpretation (linear forms + intervals + NUL-termination typestate) of every memory access and arithmetic operator; region ownership per machine',
             text='Every load/store/memcpy/memset/strncpy/snprintf/strcpy/strlen site reached in either machine or in any exported function is an obligation offset+width <= reference capacity (capacities come from the descriptor contract, not from the code\'s accessors; shared-buffer halves are separate regions), discharged by relational facts carried across state-machine steps (joins with widening) and by the scan lemma for NUL-terminated buffers; every signed operation and shift carries a no-overflow obligation; each machine touches only its own buffer region. An access the analysis cannot attach to a capacity is reported, not skipped.',
             note='Descriptor domain as stated in C03; 64-bit counters of input bytes do not overflow; callback contract for handler-modified buffers. Alignment of user storage and validity of descriptor pointers are assumed.',
             ref='DESIGN.md 4/C03'),
 'C04': dict(technique='interval analysis of the accumulators (no wrap), extraction of the validators\' range table, fail-closed path rule',
             text='In the three numeric decoders every multiply/shift/add of the 64-bit accumulator must stay in range under the guards on the path (an unguarded accumulator is reported); for every store into a numeric variable the refined interval of the stored value must equal the range of the stored type, whose width equals the data_size case and whose signedness matches the variable type, and the stored value is the parsed value itself; a failing decoder, validator or variable callback ends in ERROR without reaching the write handler.',
             note='The grammar clause (which digit strings are accepted) is checked only structurally by the quick tier. Read-only variables are excluded by C08\'s rule reused here.',
             ref='DESIGN.md 4/C04'),
 'C05': dict(technique='bound and tightness of every byte store in the two buffer decoders; capacity-comparison extraction',
             text='Every byte store of the hex and string decoders (plain, escaped, hex byte, terminating NUL) has offset+1 <= data_size on every path; every comparison against data_size in those decoders sits exactly at the capacity (so a text is refused for lack of room only if it does not fit); the size reported to the variable callback is the decoded size, 0 for read-only; failure is fail-closed as in C04.',
             note='Grammar of the accepted texts (quotes, escapes, digit pairing) is not compared with a reference automaton in the quick tier.',
             ref='DESIGN.md 4/C05'),
 'C06': dict(technique='must-store / tightness analysis of the argument-collecting state, argument agreement at the handler call sites',
             text='In the argument state every consumed byte other than LF/CR is stored unmodified at buf[length], followed by a NUL, with length+1, or the machine enters the drain state, or it is the =? shortcut; a byte is accepted exactly when it and its terminator fit; the drain state has no side effect and ends in ERROR; write handlers receive (command buffer, length, parsed-variable count) with the NUL at length, read/test handlers their own machine\'s buffer, &position and exactly the reference capacity of that buffer.',
             note='Byte-for-byte equality follows by induction on the collecting transition; it is not separately executed.',
             ref='DESIGN.md 4/C06'),
 'C08': dict(technique='guard dominance for stores (access != read-only), taint/non-interference analysis for write-only data, gate predicates',
             text='Every store into variable storage (all decoder and validator paths, failing ones included) carries the path fact access != READ_ONLY and read-only variables report size 0; on every formatting path with access == WRITE_ONLY no atom loaded from the variable reaches a printer argument, a buffer write or a branch condition (explicit and implicit flows); formatting starts only if the access predicate found something readable, decoding only if something writable; the predicate returns true only for a read-write or matching variable.',
             note='What user handlers do with data is outside the library.',
             ref='DESIGN.md 4/C08'),
 'C09': dict(technique='guard dominance across state-machine steps (facts carried in abstract states), flat-index helper agreement',
             text='Every indirect handler call in both machines is dominated by its non-NULL test (possibly a step earlier; the fact travels in the abstract state and dies when the command pointer changes); the lookup selects or counts a candidate only with command and group enabled, for the same flat index (the two index helpers are verified against the summaries used: same group walk, element index-base, flags of that entry); run/read/write handlers, variable callbacks and variable stores happen only with only_test and disable known false; refused requests have no side effect.',
             note='Flags change only between lines, as in the property.',
             ref='DESIGN.md 4/C09'),
 'C10': dict(technique='extraction of the return-code -> response-action table of each handler loop in both machines and comparison with the documented table',
             text='For the six handler call sites the set of possible return values on each path is intersected with the nine enumerators and out-of-range values, the abstract response action of the transition is classified from its effects (result code, flush with continuation, re-format, stay, hold, list, release request) and compared with the table of cat.h; continuations after an emitted buffer re-format or finish exactly once; events never produce a result code; a failing variable callback aborts before the command handler. Because the machines are memoryless apart from tracked fields this covers every finite sequence of codes.',
             note='Cells on which cat.h and the property are silent (HOLD_EXIT_* for command read/test, HOLD and test/PRINT_CMD_LIST for events) are extracted and shown but not compared.',
             ref='DESIGN.md 4/C10'),
 'C02': dict(technique='structural rules on the extracted command machine, exhaustive evaluation of the small pure helpers, helper-agreement checks',
             text='Clauses of the dispatch structure, each a necessary condition of the property: handlers run only in the states of their request kind and those are entered from the dispatcher with the matching type; the request type is stored only by the suffix transitions (none/?/=/=? and implicit write); only the lookup selects a command and by the index it scanned (flat-index helpers verified against their summaries); an abbreviation is accepted only with exactly one candidate; the per-character candidate update eliminates only when too long or differing at character length-1 and promotes only when equal at the last character; the 2-bit match lanes are independent for every lane position and byte content; case fold and name alphabet are evaluated for all 256 byte values; the reader folds everything but argument bytes.',
             note='Clauses only: equality of the end-to-end result with an independent table lookup on concrete tables (registration order x prefix relations) is a value-level question and is not decided; a counter narrowed so that it wraps for tables of several hundred commands is outside reach.',
             ref='DESIGN.md 4/C02'),
 'C07': dict(technique='agreement of sibling tables extracted from formatter and parser effect traces; value-flow identity of the formatted operand',
             text='Clauses only: for every numeric type and data_size the formatter\'s load type equals the validator\'s store type (width and signedness); the printf directive per type/size is the documented one and hex-buffer bytes are printed from an unsigned 8-bit value; every escape the string formatter emits decodes to the escaped byte in the parser\'s escape table and every byte the parser treats specially is escaped; the formatter joins with the character after which the parsers continue; the operand handed to each numeric conversion is the value loaded from the variable itself (linear form 1*load+0 through width conversions) or the constant 0 of the write-only branch.',
             note='Does not decide the numeric identity parse(format(v)) = v (C library semantics plus C04), nor capacity interplay; an operand that is not a linear form of the load (mask, lookup) is left undecided by the identity clause.',
             ref='DESIGN.md 4/C07'),
 'C13': dict(technique='exhaustive abstract evaluation of push / pop / observers over every consistent ring state per configured capacity; who-may-write; exactly-once typestate on the event machine',
             text='For capacities 1,2,3 (quick) / 1,2,3,5,8 (thorough) push and pop are interpreted from every (head, tail, count) satisfying the ring invariant: the invariant is preserved, push writes slot tail only, pop reads slot head only, a full queue refuses with an empty store set, cat_is_unsolicited_buffer_full agrees, the buffered-event query inspects exactly the queued window; ring fields are written only by producer (trigger API), consumer (idle case of the event machine) and init; the popped pair is installed in the same step, never replaced before the reset, and every return to idle clears it. The index space is finite and enumerated completely, which covers arbitrarily many wraps.',
             note='API bodies atomic (C16/C17); acceptance order as seen through real threads is C17. Capacities other than those listed are not analysed.',
             ref='DESIGN.md 4/C13'),
 'C19': dict(technique='table extraction from effect sequences, truth-table comparison of list printer vs dispatcher over descriptor valuations, unchecked-result lint for the bounded printers',
             text='The token printed for every (type, data_size, access) combination on every path of the TEST formatter is compared with the reference <name:TYPE[access]>; one variable per step, comma separated, description after a newline when present; for every valuation of the descriptor atoms (only_test, four handler pointers, variables present/readable/writable, implicit_write; excepted and out-of-domain valuations removed) the list printer\'s sub-machine and the dispatcher are interpreted with the atoms pinned and must agree on each of the four request forms; disabled commands and groups are skipped; no result of a bounded printer is ever ignored, so a text that does not fit ends in ERROR; every snprintf call site compares the reported length with the space it was given unless the directives cannot exceed a constant size.',
             note='The bounded printers themselves are C03 obligations. Two-character newline versus a pre-computed space check is covered only through the unchecked-result rule.',
             ref='DESIGN.md 4/C19'),
}

def main():
    checks = []
    for p in props:
        c = CLAIMED.get(p['id'])
        if not c:
            continue
        checks.append({
            'property_id': p['id'],
            'quick_cmd': './check %s --tier quick' % p['id'],
            'thorough_cmd': './check %s --tier thorough' % p['id'],
            'evidence_file': 'evidence/%s.json' % p['id'],
            'replay_cmd_template': './check replay {path}',
            'engine': 'catsa',
            'level_claimed': {'category': 'other', 'text': c['text'], 'design_ref': c['ref']},
            'level_note': c['note'],
            'technique': c['technique'],
        })
    na = [{'property_id': p['id'], 'reason': 'check under construction in this session; planned static rules are in DESIGN.md section 4'}
          for p in props if p['id'] not in CLAIMED]
    m = {
        'version': 1,
        'setup_cmd': 'python3 -m compileall -q catsa && ./check warm',
        'hooks': {'guard': 'MARCINBOR85_CAT_VERIF',
                  'enable': 'none needed: the analysis reads the unmodified sources; there are no hook commits',
                  'baseline_off_cmd': 'cmake -S /repo -B /repo/_build -G Ninja >/dev/null && cmake --build /repo/_build && ctest --test-dir /repo/_build -j8 --timeout 900',
                  'source_commits': [], 'add_only': True},
        'engines': [{'name': 'catsa', 'path': 'catsa/', 'serves_properties': sorted(CLAIMED),
                     'kind_free_text': 'custom static analyser over the clang-14 type-checked AST: path-sensitive abstract interpreter (linear forms, intervals, typestate), extraction of the two state machines, rule sets per property'}],
        'checks': checks,
        'not_applicable': na,
        'notes': 'Five genuine defects of the pinned tree were repaired by fix: commits in /repo (see known_findings.json and DESIGN.md section 5).',
    }
    json.dump(m, open(os.path.join(HERE, 'MANIFEST.json'), 'w'), indent=1)

if __name__ == '__main__':
    main()
