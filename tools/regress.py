#!/usr/bin/env python3
"""Re-run every check against every seeded defect kept in /verif/seeded (after an engine or rule change).

usage: regress.py [-j N] [--subset] [ids...]        (default: all seeds, all checks, 3 at a time)
       --subset: per seed only the check of the targeted property, the checks recorded as firing, and the
                 obligation-based checks most sensitive to engine precision (C03, C06, C11)

Each seed is applied to its own scratch copy of /repo under /var/tmp (never to /repo), all checks are
run against the copy (CATSA_REPO), the copy is removed.  meta.json of the seed is refreshed with the
checks that fire now; the summary lists every difference from what was recorded before:
a check that no longer fires (lost detection) or fires newly (to be triaged: true consequence or false alarm).
"""
import json
import os
import shutil
import subprocess
import sys
import time
from concurrent.futures import ThreadPoolExecutor

SEEDED = '/verif/seeded'


SUBSET = False


def run_seed(sid, jobs):
    sd = os.path.join(SEEDED, sid)
    scratch = '/var/tmp/rg_%s' % sid
    shutil.rmtree(scratch, ignore_errors=True)
    os.makedirs(scratch)
    try:
        for x in ('src', 'tests', 'example', 'CMakeLists.txt'):
            if os.path.isdir('/repo/' + x):
                shutil.copytree('/repo/' + x, scratch + '/' + x)
            else:
                shutil.copy('/repo/' + x, scratch + '/' + x)
        r = subprocess.run('patch -p1 -d %s < %s' % (scratch, os.path.join(sd, 'patch.diff')), shell=True, capture_output=True, text=True)
        if r.returncode != 0:
            return sid, None, 'patch does not apply: ' + r.stdout[-200:]
        m = json.load(open('/verif/MANIFEST.json'))
        env = dict(os.environ, CATSA_REPO=scratch, CATSA_EVID=scratch + '/evid', CATSA_CACHE=scratch + '/cache', CATSA_JOBS=str(jobs))
        res = {}
        meta = json.load(open(os.path.join(sd, 'meta.json')))
        wanted = set([meta['breaks_property'], 'C03', 'C06', 'C11']) | set(meta.get('checks_that_fire', []))
        for c in m['checks']:
            pid = c['property_id']
            if SUBSET and pid not in wanted:
                continue
            t = time.time()
            r = subprocess.run(['/verif/check', pid], capture_output=True, text=True, env=env, timeout=7200)
            lines = [l for l in r.stdout.splitlines() if l.strip()]
            res[pid] = {'rc': r.returncode, 'wall_s': round(time.time() - t, 1), 'first': [l[:300] for l in lines[:3]] if r.returncode else []}
        return sid, res, None
    finally:
        shutil.rmtree(scratch, ignore_errors=True)


def main():
    args = sys.argv[1:]
    par = 3
    if args and args[0] == '-j':
        par = int(args[1])
        args = args[2:]
    global SUBSET
    if args and args[0] == '--subset':
        SUBSET = True
        args = args[1:]
    ids = args or sorted(d for d in os.listdir(SEEDED) if os.path.exists(os.path.join(SEEDED, d, 'meta.json')))
    jobs = max(2, 16 // par)
    diffs = []
    with ThreadPoolExecutor(par) as ex:
        for sid, res, err in ex.map(lambda s: run_seed(s, jobs), ids):
            mp = os.path.join(SEEDED, sid, 'meta.json')
            meta = json.load(open(mp))
            if err:
                print('%s: %s' % (sid, err), flush=True)
                diffs.append((sid, 'error', err))
                continue
            fired = sorted(p for p, v in res.items() if v['rc'] == 1)
            broken = sorted(p for p, v in res.items() if v['rc'] not in (0, 1))
            before = meta.get('checks_that_fire', [])
            if SUBSET:
                before = [p for p in before if p in res]
            lost = sorted(set(before) - set(fired))
            new = sorted(set(fired) - set(before))
            print('%s target=%s fired=%s lost=%s new=%s broken=%s' % (sid, meta['breaks_property'], fired, lost, new, broken), flush=True)
            if lost or new or broken:
                diffs.append((sid, lost, new, broken))
            if SUBSET:
                # checks not re-run keep their recorded verdict
                fired = sorted(set(fired) | set(p for p in meta.get('checks_that_fire', []) if p not in res))
            meta['checks_that_fire'] = fired
            meta['checks_analysis_broken'] = broken
            meta['target_check_fires'] = meta['breaks_property'] in fired
            fr = dict(meta.get('first_report', {}))
            fr.update({p: res[p]['first'][:2] for p in fired + broken if p in res})
            meta['first_report'] = {p: v for p, v in fr.items() if p in fired + broken}
            json.dump(meta, open(mp, 'w'), indent=1)
    print('--- %d seeds, %d with differences' % (len(ids), len(diffs)))
    for d in diffs:
        print('DIFF', d)
    missed = [sid for sid in ids if not json.load(open(os.path.join(SEEDED, sid, 'meta.json')))['checks_that_fire']]
    print('seeds no check reports:', missed)


if __name__ == '__main__':
    main()
