#!/usr/bin/env python3
"""Confirm a seeded defect and run the checks against it.

usage: seedtest.py <seed dir with patch.diff, demo.c> <seed id> <property it targets> [checks...]

1. the demonstration passes on the unchanged tree,
2. the patch applies, compiles with the library's warning flags and the unedited suite passes,
3. the demonstration fails with the patch,
4. every check (or the given ones) is run against the patched copy (CATSA_REPO), never against /repo.
Writes <seed dir>/result.json and prints a summary line.  The scratch copy is removed afterwards.
"""
import json
import os
import shutil
import subprocess
import sys
import time


def sh(cmd, **kw):
    return subprocess.run(cmd, shell=isinstance(cmd, str), capture_output=True, text=True, **kw)


def main():
    sd, sid, prop = sys.argv[1], sys.argv[2], sys.argv[3]
    checks = sys.argv[4:]
    scratch = '/var/tmp/seed_%s' % sid
    shutil.rmtree(scratch, ignore_errors=True)
    os.makedirs(scratch)
    for x in ('src', 'tests', 'example', 'CMakeLists.txt'):
        if os.path.isdir('/repo/' + x):
            shutil.copytree('/repo/' + x, scratch + '/' + x)
        else:
            shutil.copy('/repo/' + x, scratch + '/' + x)
    res = {'id': sid, 'property': prop, 'steps': {}}
    demo = os.path.join(sd, 'demo.c')
    readme = open(os.path.join(sd, 'README.txt')).read()
    san = ''
    import re
    mm = None
    for line in (readme + '\n' + open(demo).read()).splitlines():
        if 'demo' in line and 'gcc' in line:
            mm = mm or re.search(r'-DCAT_UNSOLICITED_CMD_BUFFER_SIZE=(\d+)', line)
    mm = mm or re.search(r'-DCAT_UNSOLICITED_CMD_BUFFER_SIZE=(\d+)', open(demo).read())
    if mm:
        san += ' -DCAT_UNSOLICITED_CMD_BUFFER_SIZE=%s' % mm.group(1)

    def run_demo(tag):
        r = sh('gcc -g -pthread %s -I%s/src %s %s/src/cat.c -o %s/demo_%s && %s/demo_%s' % (san, scratch, demo, scratch, scratch, tag, scratch, tag), timeout=300)
        return r.returncode
    res['steps']['demo_on_original'] = run_demo('orig')
    r = sh('patch -p1 -d %s < %s' % (scratch, os.path.join(sd, 'patch.diff')))
    res['steps']['patch_applies'] = r.returncode
    r = sh('gcc -c -O2 -DNDEBUG -Wall -Wextra -pedantic -Werror -I%s/src %s/src/cat.c -o %s/cat.o' % (scratch, scratch, scratch))
    res['steps']['compiles_werror'] = r.returncode
    r = sh('cmake -S %s -B %s/_b -G Ninja -DCMAKE_BUILD_TYPE=RelWithDebInfo >/dev/null && cmake --build %s/_b >/dev/null && ctest --test-dir %s/_b -j8 2>&1 | tail -3' % (scratch, scratch, scratch, scratch), timeout=900)
    res['steps']['suite'] = r.stdout.strip().splitlines()[-3:] if r.stdout else r.stderr[-300:]
    res['steps']['suite_ok'] = '100% tests passed' in r.stdout
    shutil.rmtree(scratch + '/_b', ignore_errors=True)
    res['steps']['demo_on_patched'] = run_demo('patched')
    confirmed = (res['steps']['demo_on_original'] == 0 and res['steps']['patch_applies'] == 0 and res['steps']['compiles_werror'] == 0
                 and res['steps']['suite_ok'] and res['steps']['demo_on_patched'] != 0)
    res['confirmed'] = confirmed
    res['checks'] = {}
    if confirmed:
        m = json.load(open('/verif/MANIFEST.json'))
        pids = checks or [c['property_id'] for c in m['checks']]
        env = dict(os.environ, CATSA_REPO=scratch, CATSA_EVID=scratch + '/evid', CATSA_CACHE=scratch + '/cache', CATSA_JOBS=os.environ.get('CATSA_JOBS', '6'))
        for pid in pids:
            t = time.time()
            r = subprocess.run(['/verif/check', pid], capture_output=True, text=True, env=env, timeout=3600)
            lines = [l for l in r.stdout.splitlines() if l.strip()]
            res['checks'][pid] = {'rc': r.returncode, 'wall_s': round(time.time() - t, 1),
                                  'first': [l[:300] for l in lines[:3]] if r.returncode else []}
    json.dump(res, open(os.path.join(sd, 'result.json'), 'w'), indent=1)
    shutil.rmtree(scratch, ignore_errors=True)
    fired = [p for p, v in res['checks'].items() if v['rc'] == 1]
    broken = [p for p, v in res['checks'].items() if v['rc'] not in (0, 1)]
    print('%s target=%s confirmed=%s fired=%s broken=%s steps=%s' % (sid, prop, confirmed, fired, broken, {k: v for k, v in res['steps'].items() if k != 'suite'}))


if __name__ == '__main__':
    main()
