#!/usr/bin/env python3
"""behaviour-preserving refactors must keep every check silent: usage refactortest.py <name> [checks...]"""
import json, os, shutil, subprocess, sys, time
name = sys.argv[1]; checks = sys.argv[2:]
rd = '/verif/refactors/' + name
scratch = '/var/tmp/rf_' + name
shutil.rmtree(scratch, ignore_errors=True); os.makedirs(scratch)
for x in ('src', 'tests', 'example', 'CMakeLists.txt'):
    (shutil.copytree if os.path.isdir('/repo/' + x) else shutil.copy)('/repo/' + x, scratch + '/' + x)
r = subprocess.run('patch -p1 -d %s < %s/patch.diff' % (scratch, rd), shell=True, capture_output=True, text=True)
assert r.returncode == 0, r.stdout + r.stderr
r = subprocess.run('cmake -S %s -B %s/_b -G Ninja -DCMAKE_BUILD_TYPE=Debug >/dev/null && cmake --build %s/_b >/dev/null && ctest --test-dir %s/_b -j8 2>&1 | tail -3' % (scratch, scratch, scratch, scratch), shell=True, capture_output=True, text=True)
suite_ok = '100% tests passed' in r.stdout
shutil.rmtree(scratch + '/_b', ignore_errors=True)
m = json.load(open('/verif/MANIFEST.json'))
pids = checks or [c['property_id'] for c in m['checks']]
env = dict(os.environ, CATSA_REPO=scratch, CATSA_EVID=scratch + '/evid', CATSA_CACHE=scratch + '/cache', CATSA_JOBS=os.environ.get('CATSA_JOBS', '6'))
res = {}
for pid in pids:
    r = subprocess.run(['/verif/check', pid], capture_output=True, text=True, env=env, timeout=3600)
    lines = [l for l in r.stdout.splitlines() if l.strip()]
    res[pid] = {'rc': r.returncode, 'first': [l[:300] for l in lines[:3]] if r.returncode else []}
if checks and os.path.exists(rd + '/result.json'):
    # a subset was re-run: keep the recorded verdicts of the others
    old_ = json.load(open(rd + '/result.json'))
    merged = dict(old_.get('checks', {}))
    merged.update(res)
    res = merged
json.dump({'suite_ok_debug_build': suite_ok, 'checks': res}, open(rd + '/result.json', 'w'), indent=1)
shutil.rmtree(scratch, ignore_errors=True)
print(name, 'suite_ok', suite_ok, 'alarms', {p: v['first'][:1] for p, v in res.items() if v['rc'] == 1}, 'no-verdict', sorted(p for p, v in res.items() if v['rc'] not in (0, 1)))
