#!/usr/bin/env python3
"""each of the five repaired defects, re-introduced on a scratch copy (git show <fix> | patch -R), must be reported again"""
import json, os, shutil, subprocess, sys
EXPECT = {'fd5479b': 'C01', 'ff6f1ec': 'C04', 'a8600e3': 'C15', '36a8f55': 'C18', '1519fb1': 'C19'}
only = sys.argv[1:]
res = {}
for c, pid in EXPECT.items():
    if only and c not in only:
        continue
    scratch = '/var/tmp/rev_' + c
    shutil.rmtree(scratch, ignore_errors=True); os.makedirs(scratch)
    for x in ('src', 'tests', 'example', 'CMakeLists.txt'):
        (shutil.copytree if os.path.isdir('/repo/' + x) else shutil.copy)('/repo/' + x, scratch + '/' + x)
    r = subprocess.run('patch -R -p1 -d %s < /verif/mutants/revert_%s.diff' % (scratch, c), shell=True, capture_output=True, text=True)
    assert r.returncode == 0, r.stdout
    env = dict(os.environ, CATSA_REPO=scratch, CATSA_EVID=scratch + '/evid', CATSA_CACHE=scratch + '/cache', CATSA_JOBS=os.environ.get('CATSA_JOBS', '8'))
    r = subprocess.run(['/verif/check', pid], capture_output=True, text=True, env=env, timeout=3600)
    lines = [l for l in r.stdout.splitlines() if l.strip()]
    res[c] = {'property': pid, 'rc': r.returncode, 'first': lines[:2]}
    print(c, pid, 'rc', r.returncode, (lines[0][:220] if lines else ''))
    shutil.rmtree(scratch, ignore_errors=True)
json.dump(res, open('/verif/mutants/revert_results.json', 'w'), indent=1)
