#!/usr/bin/env python3
"""Record the fields of the library's structures and its enumerators as they are on the tree the rules
were written for (catsa/anchors.json).  core.anchor_guard() compares the analysed tree with it."""
import json, os, sys
sys.path.insert(0, os.path.dirname(os.path.dirname(os.path.abspath(__file__))))
from catsa.frontend import load_program
prog = load_program()
structs = {}
for name, rec in prog.records.items():
    if name and name.startswith('cat_'):
        structs[name] = [f[0] for f in rec['fields']]
enums = {}
for name, info in prog.enum_types.items():
    if not name.startswith('enum '):
        enums[name] = sorted(c for c in info['consts'] if c.startswith('CAT_'))
out = os.path.join(os.path.dirname(os.path.dirname(os.path.abspath(__file__))), 'catsa', 'anchors.json')
json.dump({'structs': structs, 'enums': enums}, open(out, 'w'), indent=1, sort_keys=True)
print(out, len(structs), 'structs', sum(len(v) for v in structs.values()), 'fields', sum(len(v) for v in enums.values()), 'enumerators')
